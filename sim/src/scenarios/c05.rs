//! C05 — Graph structural consistency under operations and thread interleavings.
//!
//! Real `GraphEngine` over a real `TensorStore`. A case is a sequential setup
//! program, 1–8 thread programs of node/edge create/update/delete operations
//! on overlapping nodes, and an explicit schedule. Threads run under the baton
//! scheduler: switches happen between operations (`c05.op`) and at the
//! `neumann_verif` hook sites inside `graph_engine` (inside the adjacency-list
//! read-modify-write, between the edge-record put and the list updates, and
//! between the steps of `delete_edge` / `delete_node` / `update_*`).
//!
//! The oracle runs only at quiescence (all threads joined), through public
//! calls only, and states the property text clause by clause (see `oracle`).
//!
//! Besides the single-item calls the programs use the public bulk and derived
//! mutators (`batch_create_nodes`, `batch_create_edges`, `batch_delete_nodes`,
//! `batch_delete_edges`, `batch_update_nodes`, `add_label`, `remove_label`);
//! a bulk call is one client operation whose items are accounted like the
//! single-item calls with the interval of the whole call.
//!
//! Every twentieth case is a *high-degree sequential* case: one client thread,
//! a hub node with 45–130 edges (undirected edges, self-loops and parallel
//! edges included; up to 131 nodes), then `delete_node` / `delete_edge` /
//! bulk deletes on it. With 100 or more edges `delete_node` takes its rayon
//! branch and `batch_create_nodes` does for 100 or more nodes: the rayon
//! workers are real, unscheduled threads without a simulation context, so
//! nothing they do is logged — the event log holds only what the client thread
//! was told (results), and the verdict comes from the quiescent dump.

use crate::ctx::RunCtx;
use crate::driver::{drop_chunks, RunOut, Scenario, Tier, Violation};
use crate::rng::Rng;
use crate::sched::{self, STAY};
use graph_engine::{Direction, Edge, EdgeInput, GraphEngine, NodeInput, PropertyValue};
use serde::{Deserialize, Serialize};
use serde_json::{json, Value};
use std::collections::{BTreeMap, BTreeSet, HashMap, VecDeque};
use std::sync::{Arc, Mutex, MutexGuard};
use tensor_store::TensorStore;

/// Operands are resolved against the registry of nodes/edges created so far
/// *at execution time*: `x < ANY` picks entry `x mod n` of those not known to
/// be deleted (falling back to all), `x >= ANY` picks entry `(x-ANY) mod n` of
/// everything ever created (deleted ones included). With nothing to pick from
/// the operation is a no-op, so any sub-list of a program is a valid program.
const ANY: u8 = 200;

#[derive(Serialize, Deserialize, Clone, Debug, PartialEq)]
pub enum Op {
    CreateNode,
    CreateEdge { a: u8, b: u8, directed: bool, ty: u8 },
    DeleteEdge { e: u8 },
    DeleteNode { n: u8 },
    UpdateNode { n: u8, v: u8, relabel: bool },
    UpdateEdge { e: u8, v: u8 },
    /// `batch_create_nodes` with `count` nodes (>= 100 takes the rayon branch; sequential cases only)
    BatchCreateNodes { count: u8 },
    /// `batch_create_edges`
    BatchCreateEdges { edges: Vec<EdgeSpec> },
    /// `batch_delete_nodes` (the same node may be named twice)
    BatchDeleteNodes { ns: Vec<u8> },
    /// `batch_delete_edges`
    BatchDeleteEdges { es: Vec<u8> },
    /// `batch_update_nodes`
    BatchUpdateNodes { items: Vec<NodeUpd> },
    AddLabel { n: u8, l: u8 },
    RemoveLabel { n: u8, l: u8 },
}

#[derive(Serialize, Deserialize, Clone, Debug, PartialEq)]
pub struct EdgeSpec {
    pub a: u8,
    pub b: u8,
    pub directed: bool,
    pub ty: u8,
}

#[derive(Serialize, Deserialize, Clone, Debug, PartialEq)]
pub struct NodeUpd {
    pub n: u8,
    pub v: u8,
    pub relabel: bool,
}

#[derive(Serialize, Deserialize, Clone, Debug)]
pub struct Case {
    /// run sequentially on the driver thread before the threads start
    pub setup: Vec<Op>,
    /// one program per scheduled thread (1 thread = the sequential configuration)
    pub threads: Vec<Vec<Op>>,
    /// baton schedule (see `sched::run_threads`)
    pub schedule: Vec<u8>,
    /// property maps handed to create/update calls also carry names from the
    /// engine's reserved `_` namespace (`_from`, `_to`, `_directed`, `_id`, ...)
    #[serde(default)]
    pub reserved_props: bool,
    /// engine configuration (part of the case): a unique constraint on all edges, on a
    /// property no generated edge carries. It never refuses anything, but with it every
    /// edge creation runs under the engine's constraint lock. That lock is held across the
    /// hook sites, so in these cases only thread 0 creates edges.
    #[serde(default)]
    pub unique_edges: bool,
}

pub struct C05;

const MAX_STEPS: usize = 30_000;

// ---------------------------------------------------------------- shared run state

#[derive(Clone, Debug)]
struct NodeRec {
    id: u64,
    /// a delete_node of it returned Ok
    deleted_ok: bool,
}

#[derive(Clone, Debug)]
struct EdgeRec {
    id: u64,
    from: usize,
    to: usize,
    directed: bool,
    /// logical time at which the successful create_edge was invoked
    c_start: u64,
    deleted_ok: bool,
}

#[derive(Clone, Debug, PartialEq)]
enum Target {
    Node(usize),
    Edge(usize),
}

/// one delete / create_edge invocation, for the real-time accounting and the probes
#[derive(Clone, Debug)]
struct Call {
    kind: &'static str,
    target: Target,
    /// endpoints (registry indices) of a create_edge / of the edge a delete_edge was aimed at
    ends: Option<(usize, usize)>,
    start: u64,
    end: u64,
    ok: bool,
}

#[derive(Clone, Debug)]
enum Cur {
    CreateEdge { from: usize, to: usize, adds: usize },
    DeleteEdge { from: usize, to: usize, directed: bool, removes: usize },
    DeleteNode,
    /// batch_create_edges: (from, to, directed) per edge, list updates done so far
    BatchCreate { edges: Vec<(usize, usize, bool)>, adds: usize },
    Other,
}

/// which adjacency list the `adds`-th list update of a create_edge / batch_create_edges touches:
/// out(from), in(to) and for undirected edges out(to), in(from), in this order, edge after edge
fn add_window_key(edges: &[(usize, usize, bool)], adds: usize) -> String {
    let mut left = adds;
    for (from, to, directed) in edges {
        let slots = if *directed { 2 } else { 4 };
        if left < slots {
            return match left {
                0 => format!("out(N{from})"),
                1 => format!("in(N{to})"),
                2 => format!("out(N{to})"),
                _ => format!("in(N{from})"),
            };
        }
        left -= slots;
    }
    "?".to_string()
}

struct Shared {
    clock: u64,
    nodes: Vec<NodeRec>,
    edges: Vec<EdgeRec>,
    calls: Vec<Call>,
    /// per thread: what it is executing (for the window probes)
    cur: Vec<Option<Cur>>,
    /// per thread: the adjacency list (e.g. "out(N2)") whose read-modify-write
    /// window the thread is inside right now ("?" = list not known to the harness)
    window: Vec<Option<String>>,
    engine_panics: Vec<String>,
    reserved_props: bool,
}

fn lock(s: &Mutex<Shared>) -> MutexGuard<'_, Shared> {
    match s.lock() {
        Ok(g) => g,
        Err(p) => p.into_inner(),
    }
}

impl Shared {
    fn pick_node(&self, x: u8) -> Option<usize> {
        if self.nodes.is_empty() {
            return None;
        }
        if x >= ANY {
            return Some((x - ANY) as usize % self.nodes.len());
        }
        let live: Vec<usize> = (0..self.nodes.len()).filter(|i| !self.nodes[*i].deleted_ok).collect();
        if live.is_empty() {
            Some(x as usize % self.nodes.len())
        } else {
            Some(live[x as usize % live.len()])
        }
    }
    fn pick_edge(&self, x: u8) -> Option<usize> {
        if self.edges.is_empty() {
            return None;
        }
        if x >= ANY {
            return Some((x - ANY) as usize % self.edges.len());
        }
        let live: Vec<usize> = (0..self.edges.len())
            .filter(|i| {
                let e = &self.edges[*i];
                !e.deleted_ok && !self.nodes[e.from].deleted_ok && !self.nodes[e.to].deleted_ok
            })
            .collect();
        if live.is_empty() {
            Some(x as usize % self.edges.len())
        } else {
            Some(live[x as usize % live.len()])
        }
    }
    fn tick(&mut self) -> u64 {
        self.clock += 1;
        self.clock
    }
    /// What the client-side registry says about node `k` right now (probes only):
    /// (distinct live edges touching it, entries they occupy in its two lists,
    /// some edge is in both of its lists — undirected or a self-loop).
    fn hub_info(&self, k: usize) -> (usize, usize, bool) {
        let (mut distinct, mut entries, mut both) = (0, 0, false);
        for e in &self.edges {
            if e.deleted_ok || self.nodes[e.from].deleted_ok || self.nodes[e.to].deleted_ok {
                continue;
            }
            if e.from == k || e.to == k {
                distinct += 1;
                if e.from == e.to || !e.directed {
                    entries += 2;
                    both = true;
                } else {
                    entries += 1;
                }
            }
        }
        (distinct, entries, both)
    }
}

fn hub_probes(info: (usize, usize, bool), ctx: &RunCtx) {
    let (distinct, entries, both) = info;
    if distinct >= 100 {
        ctx.probe("delete_node_with_100_or_more_edges");
    }
    if entries >= 100 {
        ctx.probe("delete_node_with_100_or_more_list_entries");
        if both {
            ctx.probe("delete_node_with_100_or_more_list_entries_and_an_edge_in_both_lists");
        }
    }
}

/// `hostile`: Some(k) adds property names from the reserved `_` namespace —
/// ordinary input as far as the public interface is concerned (a `HashMap<String,
/// PropertyValue>`), and never returned by reads.
fn props(hostile: Option<usize>, v: u8) -> HashMap<String, PropertyValue> {
    let mut m = HashMap::new();
    m.insert("v".to_string(), PropertyValue::Int(i64::from(v)));
    if let Some(k) = hostile {
        match (k + usize::from(v)) % 6 {
            0 => {
                m.insert("_from".to_string(), PropertyValue::Int(1));
            },
            1 => {
                m.insert("_to".to_string(), PropertyValue::Int(1));
            },
            2 => {
                m.insert("_directed".to_string(), PropertyValue::Bool(false));
            },
            3 => {
                m.insert("_id".to_string(), PropertyValue::Int(1));
                m.insert("_type".to_string(), PropertyValue::String("node".into()));
            },
            4 => {
                m.insert("_labels".to_string(), PropertyValue::String("x".into()));
                m.insert("_edge_type".to_string(), PropertyValue::String("Z".into()));
            },
            _ => {
                m.insert("_created_at".to_string(), PropertyValue::Int(7));
            },
        }
    }
    m
}

fn short_err(e: &graph_engine::GraphError) -> &'static str {
    use graph_engine::GraphError as G;
    match e {
        G::NodeNotFound(_) => "NodeNotFound",
        G::EdgeNotFound(_) => "EdgeNotFound",
        G::StorageError(_) => "StorageError",
        G::PartialDeletionError { .. } => "PartialDeletionError",
        G::CorruptedEdge { .. } => "CorruptedEdge",
        G::ConstraintViolation { .. } => "ConstraintViolation",
        G::BatchValidationError { cause, .. } => match **cause {
            G::NodeNotFound(_) => "BatchValidationError(NodeNotFound)",
            G::EdgeNotFound(_) => "BatchValidationError(EdgeNotFound)",
            _ => "BatchValidationError",
        },
        G::BatchCreationError { .. } => "BatchCreationError",
        _ => "OtherError",
    }
}

/// Execute one operation as thread `t` (usize::MAX = setup). No harness lock is
/// held while the engine runs (the engine call may park at a hook site).
fn exec_op(op: &Op, t: usize, eng: &GraphEngine, sh: &Mutex<Shared>, ctx: &RunCtx) {
    let who = if t == usize::MAX { "setup".to_string() } else { format!("t{t}") };
    let hostile = if lock(sh).reserved_props { Some(if t == usize::MAX { 3 } else { t }) } else { None };
    let set_cur = |c: Option<Cur>| {
        if t != usize::MAX {
            let mut g = lock(sh);
            g.cur[t] = c;
            g.window[t] = None;
        }
    };
    let guarded = |f: &mut dyn FnMut()| {
        if let Err(p) = std::panic::catch_unwind(std::panic::AssertUnwindSafe(f)) {
            let msg = p
                .downcast_ref::<String>()
                .cloned()
                .or_else(|| p.downcast_ref::<&str>().map(|s| (*s).to_string()))
                .unwrap_or_else(|| "panic".into());
            lock(sh).engine_panics.push(format!("{who}: {op:?}: {msg}"));
        }
    };
    match op {
        Op::CreateNode => {
            set_cur(Some(Cur::Other));
            ctx.fp("cn");
            guarded(&mut || match eng.create_node("N", props(hostile, 0)) {
                Ok(id) => {
                    let mut g = lock(sh);
                    g.nodes.push(NodeRec { id, deleted_ok: false });
                    let k = g.nodes.len() - 1;
                    drop(g);
                    ctx.event(&format!("{who} create_node = Ok(N{k})"));
                },
                Err(e) => ctx.event(&format!("{who} create_node = Err({})", short_err(&e))),
            });
        },
        Op::CreateEdge { a, b, directed, ty } => {
            let (fi, ti, fid, tid, start) = {
                let mut g = lock(sh);
                let (Some(fi), Some(ti)) = (g.pick_node(*a), g.pick_node(*b)) else {
                    return;
                };
                let start = g.tick();
                (fi, ti, g.nodes[fi].id, g.nodes[ti].id, start)
            };
            set_cur(Some(Cur::CreateEdge { from: fi, to: ti, adds: 0 }));
            let d = if *directed { "->" } else { "--" };
            ctx.event(&format!("{who} create_edge N{fi}{d}N{ti} begin"));
            guarded(&mut || {
                let r = eng.create_edge(fid, tid, format!("T{}", ty % 2), props(hostile, 0), *directed);
                let mut g = lock(sh);
                let end = g.tick();
                match r {
                    Ok(id) => {
                        g.edges.push(EdgeRec { id, from: fi, to: ti, directed: *directed, c_start: start, deleted_ok: false });
                        let k = g.edges.len() - 1;
                        g.calls.push(Call { kind: "create_edge", target: Target::Edge(k), ends: Some((fi, ti)), start, end, ok: true });
                        drop(g);
                        ctx.fp(if *directed { "ce+" } else { "cu+" });
                        ctx.event(&format!("{who} create_edge N{fi}{d}N{ti} = Ok(E{k})"));
                    },
                    Err(e) => {
                        g.calls.push(Call { kind: "create_edge", target: Target::Edge(usize::MAX), ends: Some((fi, ti)), start, end, ok: false });
                        drop(g);
                        ctx.fp("ce-");
                        ctx.event(&format!("{who} create_edge N{fi}{d}N{ti} = Err({})", short_err(&e)));
                    },
                }
            });
        },
        Op::DeleteEdge { e } => {
            let (k, id, fi, ti, directed, start) = {
                let mut g = lock(sh);
                let Some(k) = g.pick_edge(*e) else {
                    return;
                };
                let start = g.tick();
                let r = g.edges[k].clone();
                if g.hub_info(r.from).1 >= 100 || g.hub_info(r.to).1 >= 100 {
                    ctx.probe("delete_edge_at_node_with_100_or_more_list_entries");
                }
                (k, r.id, r.from, r.to, r.directed, start)
            };
            set_cur(Some(Cur::DeleteEdge { from: fi, to: ti, directed, removes: 0 }));
            ctx.event(&format!("{who} delete_edge E{k} begin"));
            guarded(&mut || {
                let r = eng.delete_edge(id);
                let mut g = lock(sh);
                let end = g.tick();
                let ok = r.is_ok();
                if ok {
                    g.edges[k].deleted_ok = true;
                }
                g.calls.push(Call { kind: "delete_edge", target: Target::Edge(k), ends: Some((fi, ti)), start, end, ok });
                drop(g);
                ctx.fp(if ok { "de+" } else { "de-" });
                ctx.event(&format!("{who} delete_edge E{k} = {}", r.map(|()| "Ok").unwrap_or_else(|e| short_err(&e))));
            });
        },
        Op::DeleteNode { n } => {
            let (k, id, start) = {
                let mut g = lock(sh);
                let Some(k) = g.pick_node(*n) else {
                    return;
                };
                let start = g.tick();
                hub_probes(g.hub_info(k), ctx);
                (k, g.nodes[k].id, start)
            };
            set_cur(Some(Cur::DeleteNode));
            ctx.event(&format!("{who} delete_node N{k} begin"));
            guarded(&mut || {
                let r = eng.delete_node(id);
                let mut g = lock(sh);
                let end = g.tick();
                let ok = r.is_ok();
                if ok {
                    g.nodes[k].deleted_ok = true;
                }
                g.calls.push(Call { kind: "delete_node", target: Target::Node(k), ends: None, start, end, ok });
                drop(g);
                ctx.fp(if ok { "dn+" } else { "dn-" });
                ctx.event(&format!("{who} delete_node N{k} = {}", r.map(|()| "Ok").unwrap_or_else(|e| short_err(&e))));
            });
        },
        Op::UpdateNode { n, v, relabel } => {
            let (k, id) = {
                let g = lock(sh);
                let Some(k) = g.pick_node(*n) else {
                    return;
                };
                (k, g.nodes[k].id)
            };
            set_cur(Some(Cur::Other));
            ctx.event(&format!("{who} update_node N{k} begin"));
            guarded(&mut || {
                let labels = if *relabel { Some(vec![format!("L{}", v % 3)]) } else { None };
                let r = eng.update_node(id, labels, props(hostile, *v));
                ctx.fp(if r.is_ok() { "un+" } else { "un-" });
                ctx.event(&format!("{who} update_node N{k} = {}", r.map(|()| "Ok").unwrap_or_else(|e| short_err(&e))));
            });
        },
        Op::UpdateEdge { e, v } => {
            let (k, id) = {
                let g = lock(sh);
                let Some(k) = g.pick_edge(*e) else {
                    return;
                };
                (k, g.edges[k].id)
            };
            set_cur(Some(Cur::Other));
            ctx.event(&format!("{who} update_edge E{k} begin"));
            guarded(&mut || {
                let r = eng.update_edge(id, props(hostile, *v));
                ctx.fp(if r.is_ok() { "ue+" } else { "ue-" });
                ctx.event(&format!("{who} update_edge E{k} = {}", r.map(|()| "Ok").unwrap_or_else(|e| short_err(&e))));
            });
        },
        Op::BatchCreateNodes { count } => {
            if *count == 0 {
                return;
            }
            set_cur(Some(Cur::Other));
            ctx.fp("bcn");
            if *count >= 100 {
                ctx.probe("batch_create_nodes_100_or_more");
            }
            guarded(&mut || {
                // both ways a caller can build an input: the constructor and the (public) fields
                let inputs: Vec<NodeInput> = (0..*count)
                    .map(|j| if j % 2 == 0 { NodeInput::new(vec!["N".to_string()], props(hostile, 0)) } else { NodeInput { labels: vec!["N".to_string()], properties: props(hostile, 0) } })
                    .collect();
                match eng.batch_create_nodes(inputs) {
                    Ok(res) => {
                        let mut g = lock(sh);
                        let first = g.nodes.len();
                        for id in &res.created_ids {
                            g.nodes.push(NodeRec { id: *id, deleted_ok: false });
                        }
                        let last = g.nodes.len();
                        drop(g);
                        ctx.probe("batch_create_nodes_ok");
                        ctx.event(&format!("{who} batch_create_nodes({count}) = Ok(N{first}..N{last})"));
                    },
                    Err(e) => ctx.event(&format!("{who} batch_create_nodes({count}) = Err({})", short_err(&e))),
                }
            });
        },
        Op::BatchCreateEdges { edges } => {
            // (from, to, directed, type) with registry indices; operands with nothing to pick are dropped
            let (specs, inputs, start) = {
                let mut g = lock(sh);
                let mut specs: Vec<(usize, usize, bool)> = Vec::new();
                let mut inputs: Vec<EdgeInput> = Vec::new();
                for s in edges {
                    let (Some(fi), Some(ti)) = (g.pick_node(s.a), g.pick_node(s.b)) else {
                        continue;
                    };
                    specs.push((fi, ti, s.directed));
                    if inputs.len() % 2 == 0 {
                        inputs.push(EdgeInput::new(g.nodes[fi].id, g.nodes[ti].id, format!("T{}", s.ty % 2), props(hostile, 0), s.directed));
                    } else {
                        inputs.push(EdgeInput { from: g.nodes[fi].id, to: g.nodes[ti].id, edge_type: format!("T{}", s.ty % 2), properties: props(hostile, 0), directed: s.directed });
                    }
                }
                if specs.is_empty() {
                    return;
                }
                let start = g.tick();
                (specs, inputs, start)
            };
            set_cur(Some(Cur::BatchCreate { edges: specs.clone(), adds: 0 }));
            let shown = specs.iter().map(|(f, t, d)| format!("N{f}{}N{t}", if *d { "->" } else { "--" })).collect::<Vec<_>>().join(",");
            ctx.event(&format!("{who} batch_create_edges [{shown}] begin"));
            let mut inputs = Some(inputs);
            guarded(&mut || {
                let r = eng.batch_create_edges(inputs.take().unwrap_or_default());
                let mut g = lock(sh);
                let end = g.tick();
                match r {
                    Ok(res) => {
                        let first = g.edges.len();
                        for ((fi, ti, directed), id) in specs.iter().zip(res.created_ids.iter()) {
                            g.edges.push(EdgeRec { id: *id, from: *fi, to: *ti, directed: *directed, c_start: start, deleted_ok: false });
                            let k = g.edges.len() - 1;
                            g.calls.push(Call { kind: "batch_create_edges", target: Target::Edge(k), ends: Some((*fi, *ti)), start, end, ok: true });
                        }
                        let last = g.edges.len();
                        drop(g);
                        ctx.fp("bce+");
                        ctx.probe("batch_create_edges_ok");
                        if res.created_ids.len() != specs.len() {
                            ctx.probe("batch_create_edges_id_count_differs");
                        }
                        ctx.event(&format!("{who} batch_create_edges [{shown}] = Ok(E{first}..E{last})"));
                    },
                    Err(e) => {
                        for (fi, ti, _) in &specs {
                            g.calls.push(Call { kind: "batch_create_edges", target: Target::Edge(usize::MAX), ends: Some((*fi, *ti)), start, end, ok: false });
                        }
                        drop(g);
                        ctx.fp("bce-");
                        ctx.event(&format!("{who} batch_create_edges [{shown}] = Err({})", short_err(&e)));
                    },
                }
            });
        },
        Op::BatchDeleteNodes { ns } => {
            let (ks, ids, start) = {
                let mut g = lock(sh);
                let ks: Vec<usize> = ns.iter().filter_map(|x| g.pick_node(*x)).collect();
                if ks.is_empty() {
                    return;
                }
                let ids: Vec<u64> = ks.iter().map(|k| g.nodes[*k].id).collect();
                let start = g.tick();
                for k in &ks {
                    hub_probes(g.hub_info(*k), ctx);
                }
                (ks, ids, start)
            };
            set_cur(Some(Cur::DeleteNode));
            let shown = ks.iter().map(|k| format!("N{k}")).collect::<Vec<_>>().join(",");
            ctx.event(&format!("{who} batch_delete_nodes [{shown}] begin"));
            guarded(&mut || {
                let r = eng.batch_delete_nodes(ids.clone());
                let mut g = lock(sh);
                let end = g.tick();
                match r {
                    Ok(res) => {
                        let mut done = Vec::new();
                        for (k, id) in ks.iter().zip(ids.iter()) {
                            let ok = res.deleted_ids.contains(id);
                            if ok {
                                g.nodes[*k].deleted_ok = true;
                                done.push(format!("N{k}"));
                            }
                            g.calls.push(Call { kind: "delete_node", target: Target::Node(*k), ends: None, start, end, ok });
                        }
                        drop(g);
                        ctx.fp(if res.failed.is_empty() { "bdn+" } else { "bdn~" });
                        ctx.probe("batch_delete_nodes_returned");
                        ctx.event(&format!("{who} batch_delete_nodes [{shown}] = deleted [{}], {} failed", done.join(","), res.failed.len()));
                    },
                    Err(e) => {
                        // un-acknowledged: any of the nodes may or may not have been taken apart
                        for k in &ks {
                            g.calls.push(Call { kind: "delete_node", target: Target::Node(*k), ends: None, start, end, ok: false });
                        }
                        drop(g);
                        ctx.fp("bdn-");
                        ctx.event(&format!("{who} batch_delete_nodes [{shown}] = Err({})", short_err(&e)));
                    },
                }
            });
        },
        Op::BatchDeleteEdges { es } => {
            let (ks, ids, ends, start) = {
                let mut g = lock(sh);
                let ks: Vec<usize> = es.iter().filter_map(|x| g.pick_edge(*x)).collect();
                if ks.is_empty() {
                    return;
                }
                let ids: Vec<u64> = ks.iter().map(|k| g.edges[*k].id).collect();
                let ends: Vec<(usize, usize)> = ks.iter().map(|k| (g.edges[*k].from, g.edges[*k].to)).collect();
                let start = g.tick();
                (ks, ids, ends, start)
            };
            set_cur(Some(Cur::Other));
            let shown = ks.iter().map(|k| format!("E{k}")).collect::<Vec<_>>().join(",");
            ctx.event(&format!("{who} batch_delete_edges [{shown}] begin"));
            guarded(&mut || {
                let r = eng.batch_delete_edges(ids.clone());
                let mut g = lock(sh);
                let end = g.tick();
                match r {
                    Ok(res) => {
                        let mut done = Vec::new();
                        for ((k, id), en) in ks.iter().zip(ids.iter()).zip(ends.iter()) {
                            let ok = res.deleted_ids.contains(id);
                            if ok {
                                g.edges[*k].deleted_ok = true;
                                done.push(format!("E{k}"));
                            }
                            g.calls.push(Call { kind: "delete_edge", target: Target::Edge(*k), ends: Some(*en), start, end, ok });
                        }
                        drop(g);
                        ctx.fp(if res.failed.is_empty() { "bde+" } else { "bde~" });
                        ctx.probe("batch_delete_edges_returned");
                        ctx.event(&format!("{who} batch_delete_edges [{shown}] = deleted [{}], {} failed", done.join(","), res.failed.len()));
                    },
                    Err(e) => {
                        for (k, en) in ks.iter().zip(ends.iter()) {
                            g.calls.push(Call { kind: "delete_edge", target: Target::Edge(*k), ends: Some(*en), start, end, ok: false });
                        }
                        drop(g);
                        ctx.fp("bde-");
                        ctx.event(&format!("{who} batch_delete_edges [{shown}] = Err({})", short_err(&e)));
                    },
                }
            });
        },
        Op::BatchUpdateNodes { items } => {
            let (ks, ups) = {
                let g = lock(sh);
                let mut ks = Vec::new();
                let mut ups: Vec<(u64, Option<Vec<String>>, HashMap<String, PropertyValue>)> = Vec::new();
                for it in items {
                    let Some(k) = g.pick_node(it.n) else {
                        continue;
                    };
                    ks.push(k);
                    ups.push((g.nodes[k].id, if it.relabel { Some(vec![format!("L{}", it.v % 3)]) } else { None }, props(hostile, it.v)));
                }
                if ks.is_empty() {
                    return;
                }
                (ks, ups)
            };
            set_cur(Some(Cur::Other));
            let shown = ks.iter().map(|k| format!("N{k}")).collect::<Vec<_>>().join(",");
            ctx.event(&format!("{who} batch_update_nodes [{shown}] begin"));
            let mut ups = Some(ups);
            guarded(&mut || {
                let r = eng.batch_update_nodes(ups.take().unwrap_or_default());
                ctx.fp(if r.is_ok() { "bun+" } else { "bun-" });
                match r {
                    Ok(n) => {
                        ctx.probe("batch_update_nodes_ok");
                        ctx.event(&format!("{who} batch_update_nodes [{shown}] = Ok({n})"));
                    },
                    Err(e) => ctx.event(&format!("{who} batch_update_nodes [{shown}] = Err({})", short_err(&e))),
                }
            });
        },
        Op::AddLabel { n, l } | Op::RemoveLabel { n, l } => {
            let (k, id) = {
                let g = lock(sh);
                let Some(k) = g.pick_node(*n) else {
                    return;
                };
                (k, g.nodes[k].id)
            };
            let add = matches!(op, Op::AddLabel { .. });
            let name = if add { "add_label" } else { "remove_label" };
            set_cur(Some(Cur::Other));
            ctx.event(&format!("{who} {name} N{k} L{} begin", l % 3));
            guarded(&mut || {
                let label = format!("L{}", l % 3);
                let r = if add { eng.add_label(id, &label) } else { eng.remove_label(id, &label) };
                ctx.fp(match (add, r.is_ok()) {
                    (true, true) => "al+",
                    (true, false) => "al-",
                    (false, true) => "rl+",
                    (false, false) => "rl-",
                });
                if r.is_ok() {
                    ctx.probe("label_op_ok");
                }
                ctx.event(&format!("{who} {name} N{k} = {}", r.map(|()| "Ok").unwrap_or_else(|e| short_err(&e))));
            });
        },
    }
    set_cur(None);
}

/// Called on thread `t` at every yield site, before the baton is handed back.
/// Keeps track of which adjacency list's read-modify-write window the thread is
/// inside and counts the overlaps (probes only, never a verdict).
fn observe(site: &'static str, t: usize, sh: &Mutex<Shared>, ctx: &RunCtx) {
    if site == "c05.op" {
        return;
    }
    let mut g = lock(sh);
    // reaching a new site means the put that closes the previous window has happened
    g.window[t] = None;
    let mut note = String::new();
    let is_add = site == "graph.add_edge_to_list.rmw";
    let is_rem = site == "graph.remove_edge_from_list.rmw";
    if is_add || is_rem {
        let key = match g.cur[t].as_mut() {
            Some(Cur::CreateEdge { from, to, adds }) if is_add => {
                // create_edge updates out(from), in(to) and for undirected edges out(to), in(from), in this order
                let k = match *adds {
                    0 => format!("out(N{from})"),
                    1 => format!("in(N{to})"),
                    2 => format!("out(N{to})"),
                    _ => format!("in(N{from})"),
                };
                *adds += 1;
                k
            },
            Some(Cur::BatchCreate { edges, adds }) if is_add => {
                let k = add_window_key(edges, *adds);
                *adds += 1;
                k
            },
            Some(Cur::DeleteEdge { from, to, directed, removes }) if is_rem => {
                // delete_edge: out(from), in(to), then out(to), in(from) if undirected; a list
                // that no longer exists is skipped by the engine, which makes this a guess then
                let k = match (*removes, *directed) {
                    (0, _) => format!("out(N{from})"),
                    (1, _) => format!("in(N{to})"),
                    (2, false) => format!("out(N{to})"),
                    (3, false) => format!("in(N{from})"),
                    _ => "?".to_string(),
                };
                *removes += 1;
                k
            },
            _ => "?".to_string(),
        };
        let mut same = false;
        let mut unknown = false;
        for (u, w) in g.window.iter().enumerate() {
            if u == t {
                continue;
            }
            if let Some(w) = w {
                if *w == key && key != "?" {
                    same = true;
                    note = format!(" — t{u} is inside the same window");
                } else if w == "?" || key == "?" {
                    unknown = true;
                }
            }
        }
        g.window[t] = Some(key.clone());
        drop(g);
        if same {
            ctx.probe("two_threads_inside_same_adjacency_rmw");
            ctx.probe("two_threads_at_same_adjacency_rmw");
        }
        if unknown {
            ctx.probe("rmw_windows_overlap_list_unknown");
        }
        ctx.event(&format!("t{t} @{site} {key}{note}"));
    } else if site == "graph.adjacency_lock.blocked" {
        // (fixed tree) the thread wants to enter a window and finds the stripe taken: which list?
        let key = match g.cur[t].as_ref() {
            Some(Cur::CreateEdge { from, to, adds }) => match *adds {
                0 => format!("out(N{from})"),
                1 => format!("in(N{to})"),
                2 => format!("out(N{to})"),
                _ => format!("in(N{from})"),
            },
            Some(Cur::BatchCreate { edges, adds }) => add_window_key(edges, *adds),
            Some(Cur::DeleteEdge { from, to, directed, removes }) => match (*removes, *directed) {
                (0, _) => format!("out(N{from})"),
                (1, _) => format!("in(N{to})"),
                (2, false) => format!("out(N{to})"),
                (3, false) => format!("in(N{from})"),
                _ => "?".to_string(),
            },
            _ => "?".to_string(),
        };
        let holder = g.window.iter().enumerate().find(|(u, w)| *u != t && w.as_deref() == Some(key.as_str()) && key != "?").map(|(u, _)| u);
        drop(g);
        ctx.probe("adjacency_lock_contended");
        match holder {
            Some(u) => {
                ctx.probe("two_threads_at_same_adjacency_rmw");
                ctx.event(&format!("t{t} @{site} {key} — t{u} is inside that window and holds the lock"));
            },
            None => ctx.event(&format!("t{t} @{site} {key}")),
        }
    } else {
        drop(g);
        if site == "graph.structure_lock.blocked" {
            ctx.probe("structure_lock_contended");
        }
        ctx.event(&format!("t{t} @{site}"));
    }
}

// ---------------------------------------------------------------- oracle

fn viol(class: &str, detail: String) -> Option<Violation> {
    Some(Violation { class: class.to_string(), detail })
}

/// Quiescent-state oracle. Public calls only. `sh` is the registry of what the
/// clients did (ids, results, real-time order).
fn oracle(eng: &GraphEngine, sh: &Shared, ctx: &RunCtx) -> Option<Violation> {
    let nname: BTreeMap<u64, String> = sh.nodes.iter().enumerate().map(|(k, n)| (n.id, format!("N{k}"))).collect();
    let ename: BTreeMap<u64, String> = sh.edges.iter().enumerate().map(|(k, e)| (e.id, format!("E{k}"))).collect();
    let nn = |id: u64| nname.get(&id).cloned().unwrap_or_else(|| format!("N?{id}"));
    let en = |id: u64| ename.get(&id).cloned().unwrap_or_else(|| format!("E?{id}"));
    let show = |e: &Edge| format!("{}({}{}{})", en(e.id), nn(e.from), if e.directed { "->" } else { "--" }, nn(e.to));

    // E = the set of existing edges
    let all: Vec<Edge> = eng.all_edges();
    let e_by_id: BTreeMap<u64, &Edge> = all.iter().map(|e| (e.id, e)).collect();
    let exists: BTreeMap<u64, bool> = sh.nodes.iter().map(|n| (n.id, eng.node_exists(n.id))).collect();
    let node_exists = |id: u64| exists.get(&id).copied().unwrap_or_else(|| eng.node_exists(id));

    // what E implies for a node: edges leaving it / arriving at it (an undirected edge does both at both ends)
    let implied = |n: u64, out: bool| -> BTreeSet<u64> {
        all.iter()
            .filter(|e| if out { e.from == n || (!e.directed && e.to == n) } else { e.to == n || (!e.directed && e.from == n) })
            .map(|e| e.id)
            .collect()
    };

    // the engine's answers for every node ever created that exists now
    struct Ans {
        out: Vec<Edge>,
        inc: Vec<Edge>,
        both: Vec<Edge>,
    }
    let mut ans: BTreeMap<u64, Ans> = BTreeMap::new();
    for n in &sh.nodes {
        if !node_exists(n.id) {
            continue;
        }
        let q = |d: Direction| eng.edges_of(n.id, d);
        match (q(Direction::Outgoing), q(Direction::Incoming), q(Direction::Both)) {
            (Ok(out), Ok(inc), Ok(both)) => {
                ans.insert(n.id, Ans { out, inc, both });
            },
            _ => return viol("v-edges_of-fails-on-existing-node", format!("edges_of({}) returned an error although node_exists is true", nn(n.id))),
        }
    }

    // (iii) "both endpoints of every edge exist"
    for e in &all {
        for (end, what) in [(e.from, "from"), (e.to, "to")] {
            if !node_exists(end) {
                return viol(
                    "iii-edge-endpoint-missing",
                    format!("edge {} exists (all_edges) but its `{what}` endpoint {} does not exist", show(e), nn(end)),
                );
            }
        }
    }

    // (i) "every edge that exists is listed by both of its endpoint nodes (in the right direction lists)"
    for e in &all {
        let mut want: Vec<(u64, bool, &str)> = vec![(e.from, true, "outgoing(from)"), (e.to, false, "incoming(to)")];
        if !e.directed {
            want.push((e.to, true, "outgoing(to) of an undirected edge"));
            want.push((e.from, false, "incoming(from) of an undirected edge"));
        }
        for (n, out, what) in want {
            let a = &ans[&n];
            let listed = if out { &a.out } else { &a.inc };
            if !listed.iter().any(|x| x.id == e.id) {
                return viol(
                    &format!("i-edge-not-listed:{}", if out { "outgoing" } else { "incoming" }),
                    format!(
                        "edge {} exists but edges_of({}, {}) = [{}] does not list it ({what})",
                        show(e),
                        nn(n),
                        if out { "Outgoing" } else { "Incoming" },
                        listed.iter().map(|x| en(x.id)).collect::<Vec<_>>().join(",")
                    ),
                );
            }
        }
    }

    // (ii) "every listed edge exists and touches the node listing it"
    for (n, a) in &ans {
        for (out, listed) in [(true, &a.out), (false, &a.inc)] {
            for x in listed {
                let Some(e) = e_by_id.get(&x.id) else {
                    return viol("ii-listed-edge-not-in-all_edges", format!("edges_of({}) lists {} which all_edges() does not contain", nn(*n), show(x)));
                };
                let touches = if out { e.from == *n || (!e.directed && e.to == *n) } else { e.to == *n || (!e.directed && e.from == *n) };
                if !touches || e.from != x.from || e.to != x.to || e.directed != x.directed {
                    return viol(
                        "ii-listed-edge-does-not-touch-node",
                        format!("edges_of({}, {}) lists {} which does not touch the node in that direction", nn(*n), if out { "Outgoing" } else { "Incoming" }, show(e)),
                    );
                }
            }
        }
    }

    // (iv) "Deleting a node removes all of its edges": a node whose delete_node returned Ok has no
    // edge in E. (That it appears in no list follows from (ii)+(iii): a listed edge is in E and
    // both endpoints of an edge in E exist.) A successful delete must be gone.
    for (k, n) in sh.nodes.iter().enumerate() {
        if n.deleted_ok {
            if node_exists(n.id) {
                return viol("acct-deleted-node-exists", format!("delete_node(N{k}) returned Ok but node_exists(N{k}) is true at quiescence"));
            }
            if let Some(e) = all.iter().find(|e| e.from == n.id || e.to == n.id) {
                return viol("iv-deleted-node-has-edge", format!("delete_node(N{k}) returned Ok but edge {} still exists", show(e)));
            }
        }
    }

    // (v) "neighbor, degree and traversal results are exactly what the set of existing edges implies"
    for (n, a) in &ans {
        let io = implied(*n, true);
        let ii = implied(*n, false);
        let ib: BTreeSet<u64> = io.union(&ii).copied().collect();
        // degrees count list entries, so an entry without an edge behind it shows here
        let (od, id_, td) = (eng.out_degree(*n), eng.in_degree(*n), eng.degree(*n));
        if od.as_ref().ok() != Some(&io.len()) {
            return viol("v-degree-mismatch:out", format!("out_degree({}) = {:?} but the existing edges imply {} ({})", nn(*n), od, io.len(), io.iter().map(|x| en(*x)).collect::<Vec<_>>().join(",")));
        }
        if id_.as_ref().ok() != Some(&ii.len()) {
            return viol("v-degree-mismatch:in", format!("in_degree({}) = {:?} but the existing edges imply {} ({})", nn(*n), id_, ii.len(), ii.iter().map(|x| en(*x)).collect::<Vec<_>>().join(",")));
        }
        if td.as_ref().ok() != Some(&(io.len() + ii.len())) {
            return viol("v-degree-mismatch:total", format!("degree({}) = {:?} but out+in implied by the existing edges is {}", nn(*n), td, io.len() + ii.len()));
        }
        // edges_of in each direction is exactly the implied set ((i)+(ii) make it a subset both ways; Both is checked here)
        let got_b: BTreeSet<u64> = a.both.iter().map(|e| e.id).collect();
        let got_o: BTreeSet<u64> = a.out.iter().map(|e| e.id).collect();
        let got_i: BTreeSet<u64> = a.inc.iter().map(|e| e.id).collect();
        if got_o != io || got_i != ii || got_b != ib {
            return viol("v-edges_of-mismatch", format!("edges_of({}) differs from what the existing edges imply: out {:?} vs {:?}, in {:?} vs {:?}, both {:?} vs {:?}", nn(*n), got_o.iter().map(|x| en(*x)).collect::<Vec<_>>(), io.iter().map(|x| en(*x)).collect::<Vec<_>>(), got_i.iter().map(|x| en(*x)).collect::<Vec<_>>(), ii.iter().map(|x| en(*x)).collect::<Vec<_>>(), got_b.iter().map(|x| en(*x)).collect::<Vec<_>>(), ib.iter().map(|x| en(*x)).collect::<Vec<_>>()));
        }
        // neighbours; whether a self-loop makes a node its own neighbour is not fixed by the
        // statement, so the node itself is left out on both sides
        for (dir, dname, ids) in [(Direction::Outgoing, "Outgoing", &io), (Direction::Incoming, "Incoming", &ii), (Direction::Both, "Both", &ib)] {
            for ty in [None, Some("T0")] {
                let mut want: BTreeSet<u64> = BTreeSet::new();
                for x in ids {
                    let e = e_by_id[x];
                    if ty.is_some() && ty != Some(e.edge_type.as_str()) {
                        continue;
                    }
                    let other = if e.from == *n { e.to } else { e.from };
                    if other != *n {
                        want.insert(other);
                    }
                }
                let got: Result<BTreeSet<u64>, _> = eng.neighbors(*n, ty, dir, None).map(|v| v.into_iter().map(|x| x.id).filter(|x| x != n).collect());
                if got.as_ref().ok() != Some(&want) {
                    return viol(
                        "v-neighbors-mismatch",
                        format!("neighbors({}, {ty:?}, {dname}) = {:?} but the existing edges imply {:?}", nn(*n), got.map(|s| s.iter().map(|x| nn(*x)).collect::<Vec<_>>()), want.iter().map(|x| nn(*x)).collect::<Vec<_>>()),
                    );
                }
            }
        }
        // traversal: breadth-first reachability along outgoing edges
        let mut seen: BTreeSet<u64> = BTreeSet::new();
        let mut q = VecDeque::new();
        seen.insert(*n);
        q.push_back(*n);
        while let Some(c) = q.pop_front() {
            for x in implied(c, true) {
                let e = e_by_id[&x];
                let other = if e.from == c { e.to } else { e.from };
                if seen.insert(other) {
                    q.push_back(other);
                }
            }
        }
        let got: Result<BTreeSet<u64>, _> = eng.traverse(*n, Direction::Outgoing, 64, None, None).map(|v| v.into_iter().map(|x| x.id).collect());
        if got.as_ref().ok() != Some(&seen) {
            return viol(
                "v-traverse-mismatch",
                format!("traverse({}, Outgoing) = {:?} but the existing edges imply {:?}", nn(*n), got.map(|s| s.iter().map(|x| nn(*x)).collect::<Vec<_>>()), seen.iter().map(|x| nn(*x)).collect::<Vec<_>>()),
            );
        }
    }
    // every node the engine enumerates exists and vice versa (traversal over all nodes)
    let listed_nodes: BTreeSet<u64> = eng.all_nodes().into_iter().map(|n| n.id).collect();
    let existing: BTreeSet<u64> = exists.iter().filter(|(_, e)| **e).map(|(k, _)| *k).collect();
    if listed_nodes != existing {
        return viol("v-all_nodes-mismatch", format!("all_nodes() = {:?} but node_exists holds for {:?}", listed_nodes.iter().map(|x| nn(*x)).collect::<Vec<_>>(), existing.iter().map(|x| nn(*x)).collect::<Vec<_>>()));
    }

    // accounting (real-time order of acknowledged calls)
    for (k, e) in sh.edges.iter().enumerate() {
        let present = e_by_id.contains_key(&e.id);
        if e.deleted_ok {
            // "every successful delete must be gone"
            if present {
                return viol("acct-deleted-edge-present", format!("delete_edge(E{k}) returned Ok but all_edges() still contains {}", show(e_by_id[&e.id])));
            }
            continue;
        }
        if present {
            continue;
        }
        // A created edge may be absent only if a delete of it or of an endpoint was not
        // strictly before the create (i.e. ran concurrently with it or after it). A
        // delete_node that returned an error is un-acknowledged and may have removed
        // edges before failing, so it excuses the absence too (narrow relaxation).
        let excused = sh.calls.iter().any(|c| match (&c.kind, &c.target) {
            (&"delete_node", Target::Node(n)) => (*n == e.from || *n == e.to) && c.end > e.c_start,
            _ => false,
        });
        if !excused {
            return viol(
                "acct-created-edge-missing",
                format!("create_edge returned Ok(E{k}) (N{}{}N{}), no delete of it or of an endpoint followed, but all_edges() does not contain it", e.from, if e.directed { "->" } else { "--" }, e.to),
            );
        }
    }
    ctx.probe("oracle_completed");
    None
}

// ---------------------------------------------------------------- generation

/// number of operation kinds `gen_op` draws from (index = position in a weight vector):
/// create_node, create_edge, delete_edge, delete_node, update_node, update_edge,
/// batch_create_nodes, batch_create_edges, batch_delete_nodes, batch_delete_edges,
/// batch_update_nodes, add_label, remove_label
const KINDS: usize = 13;

fn operand(rng: &mut Rng) -> u8 {
    if rng.chance(1, 8) {
        ANY + rng.below(8) as u8
    } else {
        rng.below(8) as u8
    }
}

fn gen_edge(rng: &mut Rng, hub_bias: u64) -> EdgeSpec {
    let a = operand(rng);
    // many edges onto one hub: node #0 of the live ones
    let b = if rng.below(100) < hub_bias { 0 } else { operand(rng) };
    let (a, b) = if rng.chance(1, 2) { (a, b) } else { (b, a) };
    let b = if rng.chance(1, 10) { a } else { b }; // self-loop
    EdgeSpec { a, b, directed: rng.chance(3, 5), ty: rng.below(2) as u8 }
}

fn gen_op(rng: &mut Rng, w: &[u64; KINDS], hub_bias: u64) -> Op {
    let total: u64 = w.iter().sum();
    let mut r = rng.below(total);
    let mut kind = 0;
    for (i, x) in w.iter().enumerate() {
        if r < *x {
            kind = i;
            break;
        }
        r -= x;
    }
    let hub_or = |rng: &mut Rng| -> u8 {
        if rng.below(100) < hub_bias {
            0
        } else {
            operand(rng)
        }
    };
    match kind {
        0 => Op::CreateNode,
        1 => {
            let e = gen_edge(rng, hub_bias);
            Op::CreateEdge { a: e.a, b: e.b, directed: e.directed, ty: e.ty }
        },
        2 => Op::DeleteEdge { e: operand(rng) },
        3 => Op::DeleteNode { n: hub_or(rng) },
        4 => Op::UpdateNode { n: operand(rng), v: rng.below(6) as u8, relabel: rng.chance(1, 3) },
        5 => Op::UpdateEdge { e: operand(rng), v: rng.below(6) as u8 },
        6 => Op::BatchCreateNodes { count: rng.range(1, 3) as u8 },
        7 => Op::BatchCreateEdges { edges: (0..rng.range(2, 4)).map(|_| gen_edge(rng, hub_bias)).collect() },
        8 => Op::BatchDeleteNodes { ns: (0..rng.range(1, 3)).map(|_| hub_or(rng)).collect() },
        9 => Op::BatchDeleteEdges { es: (0..rng.range(1, 4)).map(|_| operand(rng)).collect() },
        10 => Op::BatchUpdateNodes { items: (0..rng.range(1, 3)).map(|_| NodeUpd { n: hub_or(rng), v: rng.below(6) as u8, relabel: rng.chance(1, 3) }).collect() },
        11 => Op::AddLabel { n: hub_or(rng), l: rng.below(3) as u8 },
        _ => Op::RemoveLabel { n: hub_or(rng), l: rng.below(3) as u8 },
    }
}

/// how many schedule picks an operation is worth (a bulk call has yield sites per item)
fn op_weight(op: &Op) -> usize {
    match op {
        Op::BatchCreateEdges { edges } => edges.len().max(1),
        Op::BatchDeleteNodes { ns } => ns.len().max(1),
        Op::BatchDeleteEdges { es } => es.len().max(1),
        Op::BatchUpdateNodes { items } => items.len().max(1),
        _ => 1,
    }
}

const W_MIXED: [u64; KINDS] = [2, 6, 3, 2, 1, 1, 0, 0, 0, 0, 0, 0, 0];
const W_MIXED_ALL: [u64; KINDS] = [2, 6, 3, 2, 1, 1, 1, 3, 1, 2, 1, 1, 1];

/// The high-degree sequential case: a hub (node #0) with 45-130 edges to 0-110 other
/// nodes — directed and undirected, self-loops, parallel edges (few spokes), some edges
/// between spokes —, created one by one and/or by bulk calls, then one client thread
/// that deletes edges and the hub (single and bulk deletes) and goes on working.
fn gen_hub_case(rng: &mut Rng) -> Case {
    let spokes = *rng.pick(&[0u64, 1, 2, 5, 12, 40, 110]);
    let nodes = spokes + 1;
    let mut setup = Vec::new();
    if rng.chance(1, 2) {
        setup.push(Op::BatchCreateNodes { count: nodes as u8 });
    } else {
        for _ in 0..nodes {
            setup.push(Op::CreateNode);
        }
    }
    let m = if rng.chance(1, 2) { rng.range(100, 130) } else { rng.range(45, 110) };
    let undirected_pct = *rng.pick(&[0u64, 5, 30, 100]);
    let loop_pct = if spokes == 0 { 100 } else { *rng.pick(&[0u64, 0, 3, 20]) };
    let mut specs = Vec::new();
    for _ in 0..m {
        let spoke = if spokes == 0 { 0 } else { 1 + rng.below(spokes) as u8 };
        let (mut a, mut b) = (0u8, spoke);
        if rng.below(100) < loop_pct {
            b = 0;
        } else if spokes >= 2 && rng.chance(1, 12) {
            a = 1 + rng.below(spokes) as u8; // an edge between two spokes
        }
        if rng.chance(1, 2) {
            std::mem::swap(&mut a, &mut b);
        }
        specs.push(EdgeSpec { a, b, directed: rng.below(100) >= undirected_pct, ty: rng.below(2) as u8 });
    }
    let single = |e: &EdgeSpec| Op::CreateEdge { a: e.a, b: e.b, directed: e.directed, ty: e.ty };
    match rng.below(3) {
        0 => setup.extend(specs.iter().map(single)),
        1 => setup.push(Op::BatchCreateEdges { edges: specs }),
        _ => {
            let mut rest = specs.as_slice();
            while !rest.is_empty() {
                let n = (rng.range(1, 40) as usize).min(rest.len());
                if n == 1 || rng.chance(1, 3) {
                    setup.extend(rest[..n].iter().map(single));
                } else {
                    setup.push(Op::BatchCreateEdges { edges: rest[..n].to_vec() });
                }
                rest = &rest[n..];
            }
        },
    }
    let mut prog = Vec::new();
    // edge deletions, updates, label changes and more edges at the hub first
    for _ in 0..rng.below(5) {
        prog.push(gen_op(rng, &[0, 3, 4, 0, 1, 2, 0, 1, 0, 1, 1, 1, 1], 60));
    }
    match rng.below(5) {
        0 => prog.push(Op::BatchDeleteNodes { ns: vec![0, operand(rng)] }),
        1 => {
            prog.push(Op::BatchDeleteEdges { es: (0..rng.range(10, 60)).map(|_| rng.below(u64::from(ANY)) as u8).collect() });
            prog.push(Op::DeleteNode { n: 0 });
        },
        2 => {
            // a spoke first (its edges leave the hub's lists one by one), then the hub
            prog.push(Op::DeleteNode { n: 1 + rng.below(spokes.max(1)) as u8 });
            prog.push(Op::DeleteNode { n: 0 });
        },
        _ => prog.push(Op::DeleteNode { n: 0 }),
    }
    for _ in 0..rng.below(7) {
        prog.push(gen_op(rng, &W_MIXED_ALL, 40));
    }
    if rng.chance(1, 3) {
        // the hub once more: gone, or still there if the first attempt reported an error
        prog.push(Op::DeleteNode { n: ANY });
    }
    Case { setup, threads: vec![prog], schedule: Vec::new(), reserved_props: rng.chance(1, 8), unique_edges: false }
}

impl Scenario for C05 {
    type Case = Case;
    fn id(&self) -> &'static str {
        "C05"
    }
    fn level(&self) -> &'static str {
        "exploration"
    }
    fn runs(&self, tier: Tier) -> u64 {
        match tier {
            Tier::Quick => 30_000,
            Tier::Thorough => 450_000,
        }
    }
    fn watchdog_secs(&self) -> u64 {
        300
    }

    fn generate(&self, rng: &mut Rng, _tier: Tier, index: u64) -> Case {
        // weights: create_node, create_edge, delete_edge, delete_node, update_node, update_edge
        // then: batch_create_nodes, batch_create_edges, batch_delete_nodes, batch_delete_edges,
        // batch_update_nodes, add_label, remove_label
        let profiles: [([u64; KINDS], u64); 8] = [
            ([1, 12, 1, 0, 0, 0, 0, 0, 0, 0, 0, 0, 0], 85), // many creators onto one hub
            ([2, 6, 3, 2, 1, 1, 0, 0, 0, 0, 0, 0, 0], 40),  // mixed
            ([0, 5, 3, 5, 0, 0, 0, 0, 0, 0, 0, 0, 0], 70),  // node deletion against edge creation/deletion on the hub
            ([0, 2, 4, 3, 2, 5, 0, 0, 0, 0, 0, 0, 0], 50),  // updates against deletions
            ([0, 3, 8, 2, 0, 0, 0, 0, 0, 0, 0, 0, 0], 80),  // many deleters on one hub's lists
            ([0, 1, 1, 4, 0, 0, 0, 6, 2, 1, 0, 0, 0], 70),  // bulk edge creation against node deletion on the hub
            ([2, 6, 3, 2, 1, 1, 1, 3, 1, 2, 1, 1, 1], 40),  // mixed, every mutator
            ([0, 1, 1, 3, 2, 1, 1, 1, 2, 0, 3, 4, 3], 50),  // label and record rewrites against deletions
        ];
        let (w, hub) = *rng.pick(&profiles);
        // setup: some nodes, some edges (so that deletes and updates have something to act on)
        let mut setup = Vec::new();
        for _ in 0..rng.range(2, 5) {
            setup.push(Op::CreateNode);
        }
        for _ in 0..rng.below(7) {
            setup.push(gen_op(rng, &[0, 1, 0, 0, 0, 0, 0, 0, 0, 0, 0, 0, 0], hub));
        }
        if index % 20 == 10 {
            // the high-degree sequential configuration
            return gen_hub_case(rng);
        }
        if index % 5 == 0 {
            // the sequential configuration: one thread, no switch inside an operation matters
            let n = rng.range(6, 28) as usize;
            let wts = if rng.chance(1, 2) { W_MIXED } else { W_MIXED_ALL };
            let prog = (0..n).map(|_| gen_op(rng, &wts, 40)).collect();
            return Case { setup, threads: vec![prog], schedule: Vec::new(), reserved_props: rng.chance(1, 8), unique_edges: false };
        }
        let nthreads = match rng.below(10) {
            0..=3 => 2,
            4..=6 => 3,
            7 => 4,
            8 => rng.range(5, 6) as usize,
            _ => rng.range(7, 8) as usize,
        };
        let max_ops = if nthreads <= 3 { 5 } else { 3 };
        let mut threads = Vec::new();
        let mut total = 0;
        // one multi-threaded case in six runs with a unique edge constraint configured: all
        // edge creation is then left to thread 0 (see `Case::unique_edges`)
        let unique_edges = rng.chance(1, 6);
        let mut w_rest = w;
        w_rest[1] = 0;
        w_rest[7] = 0;
        if w_rest.iter().sum::<u64>() == 0 {
            w_rest[3] = 1;
        }
        for t in 0..nthreads {
            let n = rng.range(1, max_ops) as usize;
            let wt = if unique_edges && t > 0 { &w_rest } else { &w };
            let prog: Vec<Op> = (0..n).map(|_| gen_op(rng, wt, hub)).collect();
            total += prog.iter().map(op_weight).sum::<usize>();
            threads.push(prog);
        }
        let stick = *rng.pick(&[0u64, 40, 70, 85, 93, 97]);
        let schedule = sched::gen_schedule(rng, (total * 10 + 16).min(500), stick);
        let reserved_props = rng.chance(1, 8);
        Case { setup, threads, schedule, reserved_props, unique_edges }
    }

    fn run(&self, case: &Case, ctx: &Arc<RunCtx>) -> RunOut {
        // switch threads only at this scenario's own layer's sites (see sched::Baton::allow)
        crate::sched::set_allowed_sites(&["c05.", "graph."]);
        let mut out = RunOut::default();
        let nthreads = case.threads.len();
        if nthreads == 0 || nthreads > 8 {
            // nothing concurrent or sequential to run: a valid (trivial) case
            return out;
        }
        let eng = Arc::new(GraphEngine::with_store(TensorStore::new()));
        let sh = Arc::new(Mutex::new(Shared {
            clock: 0,
            nodes: Vec::new(),
            edges: Vec::new(),
            calls: Vec::new(),
            cur: vec![None; nthreads],
            window: vec![None; nthreads],
            engine_panics: Vec::new(),
            reserved_props: case.reserved_props,
        }));
        if case.reserved_props {
            ctx.probe("property_names_in_reserved_namespace");
        }
        if case.unique_edges {
            let c = graph_engine::Constraint {
                name: "no-two-alike".into(),
                target: graph_engine::ConstraintTarget::AllEdges,
                property: "serial_no_nobody_sets".into(),
                constraint_type: graph_engine::ConstraintType::Unique,
            };
            if let Err(e) = eng.create_constraint(c) {
                out.harness_error = Some(format!("create_constraint: {e}"));
                return out;
            }
            ctx.probe("unique_edge_constraint_configured");
        }
        ctx.fp(&format!("threads{nthreads}"));
        for op in &case.setup {
            exec_op(op, usize::MAX, &eng, &sh, ctx);
        }
        ctx.event("setup done");
        let mut bodies: Vec<sched::Body> = Vec::new();
        for (t, prog) in case.threads.iter().enumerate() {
            let prog = prog.clone();
            let eng = eng.clone();
            let sh = sh.clone();
            let ctx2 = ctx.clone();
            bodies.push(Box::new(move || {
                let (sh_o, ctx_o) = (sh.clone(), ctx2.clone());
                sched::set_site_observer(Some(Box::new(move |site| observe(site, t, &sh_o, &ctx_o))));
                for op in &prog {
                    exec_op(op, t, &eng, &sh, &ctx2);
                    sched::yield_point("c05.op");
                }
                sched::set_site_observer(None);
            }));
        }
        let res = sched::run_threads(ctx, &case.schedule, MAX_STEPS, bodies);
        if res.exhausted {
            out.harness_error = Some(format!("schedule did not finish within {MAX_STEPS} steps"));
            return out;
        }
        if !res.panics.is_empty() {
            out.harness_error = Some(format!("panic in a thread body: {:?}", res.panics));
            return out;
        }
        ctx.event(&format!("all threads joined: steps={} switches={}", res.steps, res.switches));
        for (site, n) in &res.preempted_at {
            let p: Option<&'static str> = match *site {
                "graph.add_edge_to_list.rmw" => Some("preempted_inside_add_rmw"),
                "graph.remove_edge_from_list.rmw" => Some("preempted_inside_remove_rmw"),
                "graph.create_edge.checked" => Some("preempted_after_create_edge_checks"),
                "graph.create_edge.record_put" => Some("preempted_after_edge_record_put"),
                s if s.starts_with("graph.delete_node.") => Some("preempted_inside_delete_node"),
                s if s.starts_with("graph.delete_edge.") => Some("preempted_inside_delete_edge"),
                s if s.starts_with("graph.update_") => Some("preempted_inside_update_rmw"),
                s if s.starts_with("graph.batch_create_edges.") => Some("preempted_inside_batch_create_edges"),
                s if s.starts_with("graph.batch_delete_") => Some("preempted_between_batch_delete_items"),
                s if s.starts_with("graph.batch_update_nodes.") => Some("preempted_inside_batch_update_nodes"),
                s if s.starts_with("graph.add_label.") || s.starts_with("graph.remove_label.") => Some("preempted_inside_label_rmw"),
                _ => None,
            };
            if let Some(p) = p {
                for _ in 0..*n {
                    ctx.probe(p);
                }
            }
        }
        let g = lock(&sh);
        if let Some(p) = g.engine_panics.first() {
            out.nontrivial = true;
            out.violation = Some(Violation { class: "engine-panic".into(), detail: format!("a graph operation panicked: {p}") });
            return out;
        }
        // coverage probes derived from what was executed
        let created = g.edges.len();
        if nthreads == 1 {
            ctx.probe("sequential_configuration");
        }
        if g.edges.iter().any(|e| !e.directed) {
            ctx.probe("undirected_edge");
        }
        if g.edges.iter().any(|e| e.from == e.to) {
            ctx.probe("self_loop");
        }
        let mut pairs: BTreeMap<(usize, usize), u32> = BTreeMap::new();
        let mut deg: BTreeMap<usize, u32> = BTreeMap::new();
        for e in &g.edges {
            *pairs.entry((e.from.min(e.to), e.from.max(e.to))).or_insert(0) += 1;
            *deg.entry(e.from).or_insert(0) += 1;
            *deg.entry(e.to).or_insert(0) += 1;
        }
        if pairs.values().any(|c| *c >= 2) {
            ctx.probe("parallel_edges");
        }
        if deg.values().any(|c| *c >= 5) {
            ctx.probe("hub_with_5_or_more_edges");
        }
        let overlap = |a: &Call, b: &Call| a.start < b.end && b.start < a.end;
        for d in g.calls.iter().filter(|c| c.kind == "delete_node") {
            let Target::Node(n) = d.target else { continue };
            for c in g.calls.iter() {
                let touches = c.ends.map(|(f, t)| f == n || t == n).unwrap_or(false);
                if touches && overlap(d, c) {
                    match c.kind {
                        "create_edge" => ctx.probe("delete_node_concurrent_with_create_edge_on_node"),
                        "batch_create_edges" => ctx.probe("delete_node_concurrent_with_batch_create_edges_on_node"),
                        "delete_edge" => ctx.probe("delete_node_concurrent_with_delete_edge_on_node"),
                        _ => {},
                    }
                }
            }
        }
        out.nontrivial = created >= 1 && (nthreads == 1 || res.switches >= 1);
        ctx.fp(&format!("sw{}", res.switches.min(12)));
        out.violation = oracle(&eng, &g, ctx);
        if nthreads == 1 {
            // subject shape: a violation of the sequential configuration is a different
            // finding from the same clause broken by an interleaving
            if let Some(v) = out.violation.as_mut() {
                v.class.push_str("+sequential");
            }
        }
        out
    }

    fn shrink(&self, case: &Case) -> Vec<Case> {
        let mut v = Vec::new();
        // fewer threads (never below one)
        if case.threads.len() > 1 {
            for i in 0..case.threads.len() {
                let mut c = case.clone();
                c.threads.remove(i);
                v.push(c);
            }
        }
        for (i, prog) in case.threads.iter().enumerate() {
            for p in drop_chunks(prog) {
                let mut c = case.clone();
                c.threads[i] = p;
                v.push(c);
            }
        }
        for s in drop_chunks(&case.setup) {
            let mut c = case.clone();
            c.setup = s;
            v.push(c);
        }
        // shorter schedule: cut the tail, then drop chunks, then turn picks into STAY
        let n = case.schedule.len();
        for keep in [0, n / 4, n / 2, n * 3 / 4, n.saturating_sub(1)] {
            if keep < n {
                let mut c = case.clone();
                c.schedule.truncate(keep);
                v.push(c);
            }
        }
        if n <= 64 {
            for s in drop_chunks(&case.schedule) {
                let mut c = case.clone();
                c.schedule = s;
                v.push(c);
            }
        }
        for i in 0..n {
            if case.schedule[i] != STAY {
                let mut c = case.clone();
                c.schedule[i] = STAY;
                v.push(c);
            }
        }
        // smaller bulk calls
        let smaller = |op: &Op| -> Vec<Op> {
            match op {
                Op::BatchCreateNodes { count } if *count > 1 => {
                    let mut c = vec![count / 2, count - 1];
                    c.dedup();
                    c.into_iter().map(|count| Op::BatchCreateNodes { count }).collect()
                },
                Op::BatchCreateEdges { edges } if edges.len() > 1 => drop_chunks(edges).into_iter().map(|edges| Op::BatchCreateEdges { edges }).collect(),
                Op::BatchDeleteNodes { ns } if ns.len() > 1 => drop_chunks(ns).into_iter().map(|ns| Op::BatchDeleteNodes { ns }).collect(),
                Op::BatchDeleteEdges { es } if es.len() > 1 => drop_chunks(es).into_iter().map(|es| Op::BatchDeleteEdges { es }).collect(),
                Op::BatchUpdateNodes { items } if items.len() > 1 => drop_chunks(items).into_iter().map(|items| Op::BatchUpdateNodes { items }).collect(),
                _ => Vec::new(),
            }
        };
        for (i, prog) in case.threads.iter().enumerate() {
            for (j, op) in prog.iter().enumerate() {
                for s in smaller(op) {
                    let mut c = case.clone();
                    c.threads[i][j] = s;
                    v.push(c);
                }
            }
        }
        for (j, op) in case.setup.iter().enumerate() {
            for s in smaller(op) {
                let mut c = case.clone();
                c.setup[j] = s;
                v.push(c);
            }
        }
        // simpler operations
        let simpler = |op: &Op| -> Option<Op> {
            match op {
                Op::BatchCreateEdges { edges } if edges.iter().any(|e| !e.directed) => {
                    // the first undirected edge of the batch becomes directed
                    let mut edges = edges.clone();
                    if let Some(e) = edges.iter_mut().find(|e| !e.directed) {
                        e.directed = true;
                    }
                    Some(Op::BatchCreateEdges { edges })
                },
                Op::BatchCreateEdges { edges } if edges.len() == 1 => {
                    let e = &edges[0];
                    Some(Op::CreateEdge { a: e.a, b: e.b, directed: e.directed, ty: e.ty })
                },
                Op::BatchDeleteNodes { ns } if ns.len() == 1 => Some(Op::DeleteNode { n: ns[0] }),
                Op::BatchDeleteEdges { es } if es.len() == 1 => Some(Op::DeleteEdge { e: es[0] }),
                Op::CreateEdge { a, b, directed: false, ty } => Some(Op::CreateEdge { a: *a, b: *b, directed: true, ty: *ty }),
                Op::CreateEdge { a, b, directed, ty } if *ty != 0 => Some(Op::CreateEdge { a: *a, b: *b, directed: *directed, ty: 0 }),
                Op::UpdateNode { n, v, relabel: true } => Some(Op::UpdateNode { n: *n, v: *v, relabel: false }),
                _ => None,
            }
        };
        for (i, prog) in case.threads.iter().enumerate() {
            for (j, op) in prog.iter().enumerate() {
                if let Some(s) = simpler(op) {
                    let mut c = case.clone();
                    c.threads[i][j] = s;
                    v.push(c);
                }
            }
        }
        for (j, op) in case.setup.iter().enumerate() {
            if let Some(s) = simpler(op) {
                let mut c = case.clone();
                c.setup[j] = s;
                v.push(c);
            }
        }
        v
    }

    fn required_probes(&self) -> Vec<&'static str> {
        vec![
            "oracle_completed",
            "sequential_configuration",
            "two_threads_at_same_adjacency_rmw",
            "delete_node_concurrent_with_create_edge_on_node",
            "undirected_edge",
            "self_loop",
            "parallel_edges",
            // bulk and derived mutators
            "batch_create_edges_ok",
            "batch_create_nodes_ok",
            "batch_delete_nodes_returned",
            "batch_delete_edges_returned",
            "batch_update_nodes_ok",
            "label_op_ok",
            "preempted_inside_batch_create_edges",
            "delete_node_concurrent_with_batch_create_edges_on_node",
            // high-degree sequential cases (rayon branches of delete_node / batch_create_nodes)
            "delete_node_with_100_or_more_edges",
            "delete_node_with_100_or_more_list_entries_and_an_edge_in_both_lists",
            "delete_edge_at_node_with_100_or_more_list_entries",
            "batch_create_nodes_100_or_more",
        ]
    }
    fn rule(&self) -> String {
        "A case is a sequential setup program (2-5 nodes, 0-6 edges), 1-8 thread programs of <=5 operations each (create_node, create_edge directed/undirected incl. self-loops, parallel edges and many edges onto one hub, delete_edge, delete_node, update_node, update_edge, and the bulk/derived mutators batch_create_nodes (1-3), batch_create_edges (2-4 edges), batch_delete_nodes (1-3, repeats allowed), batch_delete_edges (1-4), batch_update_nodes (1-3), add_label, remove_label; operands resolved against the nodes/edges created so far at execution time) and an explicit baton schedule that switches threads between operations and at the hook sites inside graph_engine (adjacency-list read-modify-write windows, after the edge-record put, between the steps of delete_edge/delete_node/update_*/add_label/remove_label, after the validation phase and after every edge of batch_create_edges, between the items of batch_delete_*, after the validation phase of batch_update_nodes). Every fifth case is the sequential configuration (one thread, 6-28 operations); every twentieth case is the high-degree sequential configuration (one thread; a hub with 45-130 edges, half of the cases >= 100, to 0-110 other nodes, undirected share 0/5/30/100 %, self-loops, parallel edges, created one by one or by bulk calls, nodes by batch_create_nodes in half of the cases; then edge deletions, single or bulk deletion of the hub, further operations and a second delete of the hub), where delete_node and batch_create_nodes take their rayon branches. The oracle runs once, at quiescence. Non-trivial: at least one edge was created and, for >1 thread, at least one thread switch happened. Distinct: hash of (thread count, sequence of executed operation kinds with success/failure in execution order, number of switches capped at 12).".into()
    }
    fn components(&self) -> Value {
        json!({
            "real": ["graph_engine::GraphEngine (create_node, create_edge, delete_edge, delete_node, update_node, update_edge, batch_create_nodes, batch_create_edges, batch_delete_nodes, batch_delete_edges, batch_update_nodes, add_label, remove_label, all_edges, all_nodes, edges_of, neighbors, out_degree, in_degree, degree, traverse, node_exists)", "tensor_store::TensorStore (in-memory, SlabRouter/MetadataSlab)"],
            "simulated": ["thread interleaving: baton scheduler over real OS threads, switch points = operation boundaries + neumann_verif hook sites in graph_engine"],
            "real_unscheduled": ["rayon worker threads inside delete_node (>= 100 edges) and batch_create_nodes (>= 100 nodes), reached only by the high-degree sequential cases: one client thread, the workers run without a simulation context and are joined before the call returns"],
            "stub": []
        })
    }
    fn assumptions(&self) -> Vec<String> {
        vec![
            "a TensorStore get/put/delete/scan call is atomic (no switch inside the store; the store's own concurrency is C11's subject)".into(),
            "no unique edge/node constraints are defined (create_edge would hold batch_unique_lock across the hook sites) and, in cases with more than one thread, node degree stays below PARALLEL_THRESHOLD=100 (bulk calls of <= 4 items, <= 5 operations per thread), so rayon workers never run next to scheduled threads".into(),
            "high-degree sequential cases: the order in which rayon workers process a node's edges is not controlled; it is assumed not to influence the results returned to the client nor the quiescent state (checked by the determinism re-run: the event log holds results and the verdict only)".into(),
            "a bulk call is one client operation: its items are accounted with the interval of the whole call; a bulk call that returned an error is un-acknowledged as a whole (no statement is made about which of its items took effect)".into(),
            "whether a self-loop makes a node its own neighbour is not fixed by the statement: the node itself is ignored when neighbour sets are compared".into(),
            "a delete_node that returned an error is un-acknowledged: edges of that node created before it ended may be absent".into(),
        ]
    }
}
