#!/bin/sh
# confirm_seed.sh <seed-out-dir> <crate> <worktree>: confirm a seeded change independently:
#   demo passes without the change, fails with it; the crate's lib tests give the same summary with it.
d="$1"; crate="$2"; wt="$3"
cd "$wt" || exit 2
git checkout -q -- . ; git clean -qfd -e target
demo=$(grep -m1 '^+++ b/' "$d/demo.diff" | sed 's#+++ b/##')
tname=$(basename "$demo" .rs)
git apply "$d/demo.diff" || { echo "RESULT $d demo-does-not-apply"; exit 1; }
cargo test -p "$crate" --offline --test "$tname" > /tmp/confirm_demo_without.log 2>&1; without=$?
git apply "$d/patch.diff" || { echo "RESULT $d patch-does-not-apply"; exit 1; }
cargo build -p "$crate" --offline > /tmp/confirm_build.log 2>&1; build=$?
cargo test -p "$crate" --offline --test "$tname" > /tmp/confirm_demo_with.log 2>&1; with=$?
cargo test -p "$crate" --offline --lib -- --test-threads=8 > /tmp/confirm_lib.log 2>&1
lib=$(grep "^test result" /tmp/confirm_lib.log | tail -1)
failed=$(grep -E "^test .* FAILED$" /tmp/confirm_lib.log | sort | tr '\n' ' ')
git checkout -q -- . ; git clean -qfd -e target
echo "RESULT $d build=$build demo_without_change_exit=$without demo_with_change_exit=$with lib: $lib failed: $failed"
