//! The one source of randomness: SplitMix64 seeding a xoshiro256**.
//! Everything a run decides is drawn from an `Rng` derived from VERIF_SEED.

#[derive(Clone, Debug)]
pub struct Rng {
    s: [u64; 4],
}

pub fn splitmix(x: &mut u64) -> u64 {
    *x = x.wrapping_add(0x9E37_79B9_7F4A_7C15);
    let mut z = *x;
    z = (z ^ (z >> 30)).wrapping_mul(0xBF58_476D_1CE4_E5B9);
    z = (z ^ (z >> 27)).wrapping_mul(0x94D0_49BB_1331_11EB);
    z ^ (z >> 31)
}

/// Mix several integers into one seed (order-sensitive).
pub fn mix(parts: &[u64]) -> u64 {
    let mut h = 0x243F_6A88_85A3_08D3u64;
    for p in parts {
        let mut x = h ^ p.wrapping_mul(0x9E37_79B9_7F4A_7C15);
        h = splitmix(&mut x);
    }
    h
}

pub fn hash_str(s: &str) -> u64 {
    // FNV-1a, stable across processes (never std's RandomState).
    let mut h = 0xcbf2_9ce4_8422_2325u64;
    for b in s.as_bytes() {
        h ^= u64::from(*b);
        h = h.wrapping_mul(0x0100_0000_01b3);
    }
    h
}

impl Rng {
    pub fn new(seed: u64) -> Self {
        let mut x = seed;
        let s = [splitmix(&mut x), splitmix(&mut x), splitmix(&mut x), splitmix(&mut x)];
        Rng { s }
    }
    pub fn next_u64(&mut self) -> u64 {
        let r = self.s[1].wrapping_mul(5).rotate_left(7).wrapping_mul(9);
        let t = self.s[1] << 17;
        self.s[2] ^= self.s[0];
        self.s[3] ^= self.s[1];
        self.s[1] ^= self.s[2];
        self.s[0] ^= self.s[3];
        self.s[2] ^= t;
        self.s[3] = self.s[3].rotate_left(45);
        r
    }
    /// Uniform in 0..n (n > 0).
    pub fn below(&mut self, n: u64) -> u64 {
        if n <= 1 {
            return 0;
        }
        self.next_u64() % n
    }
    pub fn range(&mut self, lo: u64, hi_incl: u64) -> u64 {
        lo + self.below(hi_incl - lo + 1)
    }
    pub fn usize_below(&mut self, n: usize) -> usize {
        self.below(n as u64) as usize
    }
    pub fn chance(&mut self, num: u64, den: u64) -> bool {
        self.below(den) < num
    }
    pub fn f64(&mut self) -> f64 {
        (self.next_u64() >> 11) as f64 / (1u64 << 53) as f64
    }
    pub fn pick<'a, T>(&mut self, xs: &'a [T]) -> &'a T {
        &xs[self.usize_below(xs.len())]
    }
    pub fn fill(&mut self, buf: &mut [u8]) {
        for chunk in buf.chunks_mut(8) {
            let v = self.next_u64().to_le_bytes();
            chunk.copy_from_slice(&v[..chunk.len()]);
        }
    }
    pub fn fork(&mut self) -> Rng {
        Rng::new(self.next_u64())
    }
}
