//! SimTransport: the only network the nodes see. `send`/`broadcast` put the
//! message into the kernel's in-flight list; the scenario's step list decides
//! what is delivered, dropped, duplicated or delayed, and in which order.

use async_trait::async_trait;
use std::future::Future;
use std::pin::Pin;
use std::sync::{Arc, Mutex};
use std::task::{Context, Poll, RawWaker, RawWakerVTable, Waker};
use tensor_chain::error::{ChainError, Result as ChainResult};
use tensor_chain::network::{Message, PeerConfig, Transport};

#[derive(Clone, Debug)]
pub struct InFlight {
    pub id: u64,
    pub from: String,
    pub to: String,
    pub msg: Message,
}

#[derive(Default)]
pub struct NetState {
    pub inflight: Vec<InFlight>,
    pub next_id: u64,
    /// blocked directed links (from, to)
    pub blocked: Vec<(String, String)>,
    /// nodes that are down: messages to them are dropped at delivery
    pub sent: u64,
    pub fail_sends_from: Vec<String>,
}

pub type Net = Arc<Mutex<NetState>>;

pub fn new_net() -> Net {
    Arc::new(Mutex::new(NetState::default()))
}

pub struct SimTransport {
    pub me: String,
    pub peers: Vec<String>,
    pub net: Net,
}

impl SimTransport {
    pub fn new(me: &str, all: &[String], net: &Net) -> Arc<Self> {
        Arc::new(SimTransport {
            me: me.to_string(),
            peers: all.iter().filter(|p| p.as_str() != me).cloned().collect(),
            net: net.clone(),
        })
    }
}

#[async_trait]
impl Transport for SimTransport {
    async fn send(&self, to: &String, msg: Message) -> ChainResult<()> {
        let mut g = self.net.lock().unwrap();
        if g.fail_sends_from.contains(&self.me) {
            return Err(ChainError::NetworkError("sim: send failed".into()));
        }
        g.next_id += 1;
        g.sent += 1;
        let id = g.next_id;
        g.inflight.push(InFlight { id, from: self.me.clone(), to: to.clone(), msg });
        Ok(())
    }
    async fn broadcast(&self, msg: Message) -> ChainResult<()> {
        for p in &self.peers {
            self.send(p, msg.clone()).await?;
        }
        Ok(())
    }
    async fn recv(&self) -> ChainResult<(String, Message)> {
        Err(ChainError::NetworkError("sim: recv is driven by the kernel".into()))
    }
    async fn connect(&self, _peer: &PeerConfig) -> ChainResult<()> {
        Ok(())
    }
    async fn disconnect(&self, _peer_id: &String) -> ChainResult<()> {
        Ok(())
    }
    fn peers(&self) -> Vec<String> {
        self.peers.clone()
    }
    fn local_id(&self) -> &String {
        &self.me
    }
}

fn noop_waker() -> Waker {
    fn clone(_: *const ()) -> RawWaker {
        RawWaker::new(std::ptr::null(), &VT)
    }
    fn noop(_: *const ()) {}
    static VT: RawWakerVTable = RawWakerVTable::new(clone, noop, noop, noop);
    unsafe { Waker::from_raw(RawWaker::new(std::ptr::null(), &VT)) }
}

/// Poll a future that must complete without suspending (everything the
/// scenarios reach awaits only `SimTransport`, which is always ready).
/// A few extra polls are allowed for cooperative yields; a future that still
/// pends is a harness error, reported by panic in the run thread.
pub fn now_or_never<F: Future>(f: F) -> F::Output {
    let waker = noop_waker();
    let mut cx = Context::from_waker(&waker);
    let mut f = Box::pin(f);
    for _ in 0..64 {
        if let Poll::Ready(v) = Pin::as_mut(&mut f).poll(&mut cx) {
            return v;
        }
    }
    panic!("HARNESS: future suspended under the simulator");
}
