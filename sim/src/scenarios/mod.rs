pub mod c02;
pub mod c10;
