//! C07 — Snapshots reproduce the store exactly and replace files atomically.
//!
//! Real `TensorStore::{save_snapshot, load_snapshot, save_snapshot_compressed,
//! load_snapshot_compressed, snapshot_bytes, restore_from_bytes}`,
//! `snapshot::save_v3_uncompressed` and `SlabRouter::{to_bytes, from_bytes,
//! save_to_file, load_from_file}` on the simulated disk; the store under test may
//! be log-backed (`TensorStore::open_durable` / `SlabRouter::with_wal_and_config`,
//! log file on the simulated disk) and `checkpoint(path)` is one more save form
//! (default file format) with the same two clauses.
//!
//! A case is a program of fill steps (key-addressed entries of every value kind
//! and key class, relational slab rows through the slab API and through
//! `RelationalEngine`, embedding slab + entity index through `emb:` puts, graph
//! data through `GraphEngine` and through the router's `GraphTensor`, blob log
//! chunks), `Save{format}` steps and bytes-form round trips; the store that
//! receives a `restore_from_bytes` "over" restore is prepared by a generated fill
//! program of its own (all slabs, same step code as the source). In Enumerate mode
//! every mutating syscall boundary of every save (open/create of the temp file,
//! each write, the rename, and "after the rename") and sampled byte offsets
//! inside every write are each taken as a crash point in the PROCESS-crash
//! model; after each crash the path is loaded, compared with the complete
//! previous and the complete new snapshot, saved again over the leftover temp
//! file and loaded again, and the rest of the program runs on the loaded store.

use crate::ctx::{RunCtx, SysEvent};
use crate::driver::{drop_chunks, RunOut, Scenario, Tier, Violation};
use crate::rng::Rng;
use crate::storeutil::{canon_data, canon_value, gen_value, maps_equiv, value_equiv};
use graph_engine::{GraphEngine, PropertyValue};
use relational_engine::{Column, ColumnType as EColumnType, Condition, RelationalEngine, Schema, Value as EValue};
use serde::{Deserialize, Serialize};
use serde_json::{json, Value};
use std::collections::{BTreeMap, HashMap};
use std::path::Path;
use std::sync::Arc;
use tensor_store::entity_index::EntityId;
use tensor_store::relational_slab::{ColumnDef, ColumnType, ColumnValue, RowId, TableSchema};
use tensor_store::{
    ChunkHash, EdgeId, ScalarValue, SlabRouter, SlabRouterConfig, SparseVector, SyncMode, TensorData, TensorStore, TensorValue, WalConfig,
};

const NODE: &str = "n0";
/// reconstruction tolerance accepted for vectors of >= 256 elements stored
/// through a lossy path (relative L2), same figure as C02
const TOL: f32 = 0.02;
/// embedding dimension of the small-dimension router configuration
const SMALL_DIM: usize = 8;

#[derive(Serialize, Deserialize, Clone, Copy, Debug, PartialEq)]
pub enum Fmt {
    /// `TensorStore::save_snapshot` (v3, zstd)
    Default,
    /// `snapshot::save_v3_uncompressed`
    Uncompressed,
    /// `save_snapshot_compressed` with `CompressionConfig::default()` (q=0) or
    /// `CompressionConfig::balanced(384)` (q=1)
    Quant { q: u8 },
    /// `TensorStore::checkpoint(path)` / `SlabRouter::checkpoint(path)`: the
    /// default file format written by the checkpoint call (which also syncs,
    /// marks and truncates the log of a log-backed store)
    Checkpoint,
}

impl Fmt {
    fn name(self) -> &'static str {
        match self {
            Fmt::Default => "file-zstd",
            Fmt::Uncompressed => "file-uncompressed",
            Fmt::Quant { q: 0 } => "quantising-default",
            Fmt::Quant { .. } => "quantising-tt",
            Fmt::Checkpoint => "checkpoint",
        }
    }
    fn is_quant(self) -> bool {
        matches!(self, Fmt::Quant { .. })
    }
}

#[derive(Serialize, Deserialize, Clone, Copy, Debug, PartialEq)]
pub enum BytesForm {
    /// `SlabRouter::to_bytes` -> `SlabRouter::from_bytes`
    Router,
    /// `snapshot_bytes` -> `restore_from_bytes` into a new store
    StoreFresh,
    /// `snapshot_bytes` -> `restore_from_bytes` into a store that holds other data
    StoreOver,
}

impl BytesForm {
    fn name(self) -> &'static str {
        match self {
            BytesForm::Router => "router-bytes",
            BytesForm::StoreFresh => "restore_from_bytes",
            BytesForm::StoreOver => "restore_from_bytes-over",
        }
    }
}

#[derive(Serialize, Deserialize, Clone, Debug, PartialEq)]
pub enum Step {
    Put { class: u8, idx: u16, kind: u8, u: u32 },
    PutMany { class: u8, start: u16, n: u16, u: u32 },
    /// `n` keys that all carry the same value (a very regular store)
    PutSame { class: u8, start: u16, n: u16, kind: u8, u: u32 },
    Del { class: u8, idx: u16 },
    /// `put_durable` (logged first on a log-backed store; a plain put otherwise)
    PutD { class: u8, idx: u16, kind: u8, u: u32 },
    /// `delete_durable`
    DelD { class: u8, idx: u16 },
    /// `wal_sync` (no-op on a store without a log)
    Sync,
    /// create table t (engine: through RelationalEngine, else slab API)
    Table { t: u8, engine: bool },
    Rows { t: u8, engine: bool, n: u16, u: u32 },
    RowDel { t: u8, engine: bool, row: u16 },
    RowUpd { t: u8, row: u16, u: u32 },
    Index { t: u8, engine: bool },
    /// `emb:` key carrying a full-dimension `_embedding` (embedding slab + entity index)
    Emb { idx: u16, shape: u8, u: u32 },
    GNode { u: u32 },
    GEdge { a: u8, b: u8, u: u32 },
    /// router GraphTensor slab
    TEdge { from: u8, to: u8, ty: u8, directed: bool, u: u32 },
    TEdgeDel { e: u8 },
    Blob { len: u16, u: u32 },
    /// one of the appended chunks is marked as garbage and the blob log compacted
    /// (live chunks move to fresh segments)
    BlobDrop { pick: u8 },
    Save { fmt: Fmt, p: u8 },
    /// Bytes-form round trip. For `StoreOver` the receiving store is prepared by
    /// its own fill program `target` (any fill step kind; Save/Bytes inside are
    /// no-ops) and is built as `tcfg` says (0 = `TensorStore::new()`, 1 =
    /// `TensorStore::with_bloom_filter`); `reuse` = receive into the store that
    /// received the previous `StoreOver` restore of this program (after running
    /// `target` on it), if there is one.
    Bytes {
        form: BytesForm,
        #[serde(default)]
        target: Vec<Step>,
        #[serde(default)]
        tcfg: u8,
        #[serde(default)]
        reuse: bool,
    },
}

#[derive(Serialize, Deserialize, Clone, Debug, PartialEq)]
pub struct CrashSpec {
    /// ordinal of the Save step (0-based among Save steps) the crash hits
    pub save: usize,
    /// crash at the nth mutating syscall of that save; nth == number of
    /// syscalls of the save means "right after the rename"
    pub nth: u64,
    /// bytes kept if that syscall is a write
    pub bytes: Option<usize>,
}

#[derive(Serialize, Deserialize, Clone, Debug, PartialEq)]
pub enum Mode {
    Enumerate,
    Chain(Vec<CrashSpec>),
}

#[derive(Serialize, Deserialize, Clone, Debug)]
pub struct Case {
    /// 0 = TensorStore (default router config); 1 = bare SlabRouter with
    /// embedding_dim = 8 and small blob segments (router-level API only)
    pub cfg: u8,
    /// 0 = verdict run (process-crash model); 1 = power-loss observation run;
    /// 2 = observation run with unstructured dense 384-element embeddings
    pub observe: u8,
    /// sampled byte offsets per write in Enumerate mode
    pub offsets: u8,
    pub steps: Vec<Step>,
    pub mode: Mode,
    /// default-format files are loaded with `load_snapshot_with_bloom_filter`
    /// (the loaded store answers `get`/`exists` through a rebuilt Bloom filter)
    #[serde(default)]
    pub bloom_loader: bool,
    /// 0 = store without a log; 1..=3 = log-backed store (`open_durable` on the
    /// simulated disk) with sync mode immediate / batched(3) / manual
    #[serde(default)]
    pub wal: u8,
}

pub struct C07;

type Dump = BTreeMap<String, TensorData>;

/// Violation classes that are triaged and documented (REPORT.md); when one run
/// shows several round-trip violations an un-triaged class is reported first.
const TRIAGED: &[&str] = &[
    // F2: restore_from_bytes refills only key-addressed entries
    "roundtrip/restore_from_bytes/T/missing",
    "roundtrip/restore_from_bytes/G/missing",
    "roundtrip/restore_from_bytes/B/missing",
    "roundtrip/restore_from_bytes-over/T/missing",
    "roundtrip/restore_from_bytes-over/G/missing",
    "roundtrip/restore_from_bytes-over/B/missing",
    // F3: the quantising format stores only key-addressed entries
    "roundtrip/quantising-default/T/missing",
    "roundtrip/quantising-default/G/missing",
    "roundtrip/quantising-default/B/missing",
    "roundtrip/quantising-tt/T/missing",
    "roundtrip/quantising-tt/G/missing",
    "roundtrip/quantising-tt/B/missing",
    // F4: the quantising format replaces a bytes value by the string "bytes:<len>"
    "roundtrip/quantising-default/K/value-bytes",
    "roundtrip/quantising-tt/K/value-bytes",
    // F6: restore_from_bytes into a store built with a Bloom filter leaves the filter
    // without the restored keys; the store then refuses to read them
    "roundtrip/restore_from_bytes-over/K/store-get-fails",
];

// ---------------------------------------------------------------- generators

const KEY_CLASSES: &[&str] = &["plain:", "emb:", "node:", "edge:", "table:", "_cache:", "user:", "_blob:meta:", "_blob:chunk:", "k\u{e9}\u{1F600}/", ""];

fn key_for(class: u8, idx: u16) -> String {
    let c = KEY_CLASSES[class as usize % KEY_CLASSES.len()];
    if c.is_empty() {
        // no class prefix: bare, long and odd keys
        match idx % 4 {
            0 => format!("{idx}"),
            1 => format!("{}{idx}", "L".repeat(300)),
            2 => format!(" sp ace\t{idx}"),
            _ => format!("a:b:c:{idx}"),
        }
    } else {
        format!("{c}{idx}")
    }
}

fn sc(v: ScalarValue) -> TensorValue {
    TensorValue::Scalar(v)
}

/// Values beyond `storeutil::gen_value`'s twelve kinds.
fn value_for(kind: u8, u: u32) -> TensorData {
    let k = kind % 22;
    if k < 12 {
        return gen_value(k, u);
    }
    let mut d = TensorData::new();
    d.set("_u", sc(ScalarValue::Int(i64::from(u))));
    match k {
        12 => {
            // one record with every scalar kind at its edges
            d.set("n", sc(ScalarValue::Null));
            d.set("bt", sc(ScalarValue::Bool(true)));
            d.set("bf", sc(ScalarValue::Bool(false)));
            d.set("imin", sc(ScalarValue::Int(i64::MIN)));
            d.set("imax", sc(ScalarValue::Int(i64::MAX)));
            d.set("izero", sc(ScalarValue::Int(0)));
            d.set("ineg", sc(ScalarValue::Int(-1)));
            d.set("fnan", sc(ScalarValue::Float(f64::NAN)));
            d.set("fnnan", sc(ScalarValue::Float(f64::from_bits(0xfff8_0000_0000_0001 | u64::from(u)))));
            d.set("finf", sc(ScalarValue::Float(f64::INFINITY)));
            d.set("fninf", sc(ScalarValue::Float(f64::NEG_INFINITY)));
            d.set("fnz", sc(ScalarValue::Float(-0.0)));
            d.set("fsub", sc(ScalarValue::Float(f64::from_bits(1 + u64::from(u)))));
            d.set("fmax", sc(ScalarValue::Float(f64::MAX)));
            d.set("fmin", sc(ScalarValue::Float(f64::MIN_POSITIVE)));
            d.set("sempty", sc(ScalarValue::String(String::new())));
            d.set("snul", sc(ScalarValue::String(format!("a\0b\n{u}"))));
            d.set("xempty", sc(ScalarValue::Bytes(Vec::new())));
            d.set("xall", sc(ScalarValue::Bytes((0..=255u8).collect())));
        },
        13 => {
            // short vector with non-finite and signed-zero elements (stored verbatim)
            d.set("v", TensorValue::Vector(vec![f32::NAN, f32::INFINITY, f32::NEG_INFINITY, -0.0, 1e-39, u as f32]));
        },
        14 => {
            // long vector on a field that is not an embedding
            d.set("v", TensorValue::Vector((0..300).map(|i| (i as f32).sin() * 3.0 + u as f32).collect()));
        },
        15 => {
            let mut sv = SparseVector::new(1000);
            sv.set((u % 1000) as usize, -2.5);
            sv.set(((u * 7) % 1000) as usize, 1e-20);
            sv.set(999, u as f32 + 0.5);
            d.set("sp", TensorValue::Sparse(sv));
        },
        16 => {
            // no fields at all
            return TensorData::new();
        },
        17 => {
            d.set("v", TensorValue::Vector(Vec::new()));
            d.set("ps", TensorValue::Pointers(Vec::new()));
            d.set("p", TensorValue::Pointer(String::new()));
            d.set("sp", TensorValue::Sparse(SparseVector::new(4)));
        },
        20 | 21 => {
            // opaque high-entropy payload (no encoder shrinks it): 4-48 KiB
            let n = if k == 20 { 4096 + (u % 4096) as usize } else { 16 * 1024 + (u % (32 * 1024)) as usize };
            let mut x = (u64::from(u) << 1 | 1).wrapping_mul(0x9E37_79B9_7F4A_7C15);
            let mut b = Vec::with_capacity(n + 8);
            while b.len() < n {
                x ^= x << 13;
                x ^= x >> 7;
                x ^= x << 17;
                b.extend_from_slice(&x.to_le_bytes());
            }
            b.truncate(n);
            d.set("noise", sc(ScalarValue::Bytes(b)));
        },
        18 => {
            // large blob payload
            let n = 3000 + (u % 2000) as usize;
            d.set("data", sc(ScalarValue::Bytes((0..n).map(|i| (i as u32 ^ u) as u8).collect())));
            d.set("size", sc(ScalarValue::Int(n as i64)));
        },
        _ => {
            // many fields
            for i in 0..40u32 {
                d.set(format!("f{i}"), sc(ScalarValue::Int(i64::from(u) * 100 + i64::from(i))));
            }
        },
    }
    d
}

/// Full-dimension embedding. Shapes 0..=4 are structured (low tensor rank or
/// sparse); shape 5 is for the 8-element configuration (short vectors must be
/// bit-identical); shapes 6 (period-11 pattern) and 7 (pseudo-random) have no
/// low-rank structure and run at 384 elements in observation runs only.
fn emb_vec(shape: u8, u: u32, dim: usize) -> Vec<f32> {
    let uf = (u % 1000) as f32;
    match shape % 8 {
        0 => (0..dim).map(|i| ((i as u32 ^ u) % 97) as f32 * 0.5).collect(),
        1 => {
            // > 50% zeros: stored as a sparse list in the snapshot
            let mut v = vec![0.0f32; dim];
            for j in 0..(dim / 8).max(1) {
                v[(j * 7 + u as usize) % dim] = 1.0 + j as f32 + uf;
            }
            v
        },
        2 => vec![uf + 0.25; dim],
        3 => (0..dim).map(|i| i as f32 * 0.125 + uf).collect(),
        4 => (0..dim).map(|i| if i % 2 == 0 { uf + 1.0 } else { -(uf + 1.0) * 0.5 }).collect(),
        5 => {
            // mostly zeros with a negative zero and a value below the sparse cut-off
            let mut v = vec![0.0f32; dim];
            v[0] = uf + 1.0;
            v[1 % dim] = -0.0;
            v[2 % dim] = 1e-7;
            v
        },
        6 => (0..dim).map(|i| ((i * 3 + u as usize) % 11) as f32 - 5.0).collect(),
        _ => {
            let mut s = u64::from(u) * 0x9E37_79B9 + 12345;
            (0..dim)
                .map(|_| {
                    s = s.wrapping_mul(6_364_136_223_846_793_005).wrapping_add(1_442_695_040_888_963_407);
                    ((s >> 40) as f32 / (1u64 << 24) as f32) * 2.0 - 1.0
                })
                .collect()
        },
    }
}

fn slab_schema(t: u8) -> TableSchema {
    if t % 3 == 2 {
        TableSchema::new(vec![ColumnDef::new("only", ColumnType::Float, true)])
    } else {
        // both tables of this shape declare some of the columns that hold NULLs NOT NULL (each
        // table other ones); the slab leaves the enforcement of the flag to the layers above,
        // so a NULL in such a column is store content like any other
        let n = t % 3 == 0;
        TableSchema::new(vec![
            ColumnDef::new("id", ColumnType::Int, false),
            ColumnDef::new("ci", ColumnType::Int, n),
            ColumnDef::new("cf", ColumnType::Float, !n),
            ColumnDef::new("cs", ColumnType::String, true),
            ColumnDef::new("cb", ColumnType::Bool, n),
            ColumnDef::new("cx", ColumnType::Bytes, !n),
            ColumnDef::new("cj", ColumnType::Json, true),
        ])
        .with_primary_key("id")
    }
}

fn slab_row(t: u8, u: u32) -> Vec<ColumnValue> {
    if t % 3 == 2 {
        return vec![match u % 5 {
            0 => ColumnValue::Null,
            1 => ColumnValue::Float(f64::NAN),
            2 => ColumnValue::Float(-0.0),
            3 => ColumnValue::Float(f64::NEG_INFINITY),
            _ => ColumnValue::Float(f64::from(u) * 0.1),
        }];
    }
    let nul = |m: u32| u % m == 0;
    vec![
        ColumnValue::Int(i64::from(u)),
        if nul(7) {
            ColumnValue::Null
        } else {
            ColumnValue::Int(match u % 4 {
                0 => i64::MIN,
                1 => i64::MAX,
                2 => 0,
                _ => i64::from(u % 10),
            })
        },
        if nul(5) {
            ColumnValue::Null
        } else {
            ColumnValue::Float(match u % 6 {
                1 => f64::NAN,
                2 => f64::INFINITY,
                3 => -0.0,
                _ => f64::from(u) * 1.25,
            })
        },
        if nul(3) { ColumnValue::Null } else { ColumnValue::String(if u % 4 == 1 { String::new() } else { format!("s-é-{u}") }) },
        if nul(11) { ColumnValue::Null } else { ColumnValue::Bool(u % 2 == 1) },
        if nul(4) { ColumnValue::Null } else { ColumnValue::Bytes((0..(u % 19) as u8).collect()) },
        if nul(6) { ColumnValue::Null } else { ColumnValue::Json(format!("{{\"k\":{u}}}")) },
    ]
}

fn engine_schema() -> Schema {
    Schema::new(vec![
        Column::new("id", EColumnType::Int),
        Column::new("ci", EColumnType::Int).nullable(),
        Column::new("cf", EColumnType::Float).nullable(),
        Column::new("cs", EColumnType::String).nullable(),
        Column::new("cb", EColumnType::Bool).nullable(),
        Column::new("cx", EColumnType::Bytes).nullable(),
        Column::new("cj", EColumnType::Json).nullable(),
    ])
}

fn engine_row(u: u32) -> HashMap<String, EValue> {
    let mut m = HashMap::new();
    for (name, v) in ["id", "ci", "cf", "cs", "cb", "cx", "cj"].iter().zip(slab_row(0, u)) {
        let ev = match v {
            ColumnValue::Null => EValue::Null,
            ColumnValue::Int(i) => EValue::Int(i),
            ColumnValue::Float(f) => EValue::Float(f),
            ColumnValue::String(s) => EValue::String(s),
            ColumnValue::Bool(b) => EValue::Bool(b),
            ColumnValue::Bytes(b) => EValue::Bytes(b),
            ColumnValue::Json(j) => EValue::Json(serde_json::from_str(&j).unwrap_or(serde_json::Value::Null)),
        };
        m.insert((*name).to_string(), ev);
    }
    m
}

/// Edge type names of the router's GraphTensor slab (GraphEngine edges use the
/// first three). "default" is the name the type registry is born with.
const EDGE_TYPES: &[&str] = &["knows", "owns", "é-rel", "default", "likes", ""];
const TNODES: u64 = 24;

// ---------------------------------------------------------------- dumps

fn col_to_value(c: &ColumnValue) -> TensorValue {
    match c {
        ColumnValue::Null => sc(ScalarValue::Null),
        ColumnValue::Int(i) => sc(ScalarValue::Int(*i)),
        ColumnValue::Float(f) => sc(ScalarValue::Float(*f)),
        ColumnValue::String(s) => sc(ScalarValue::String(s.clone())),
        ColumnValue::Bool(b) => sc(ScalarValue::Bool(*b)),
        ColumnValue::Bytes(b) => sc(ScalarValue::Bytes(b.clone())),
        ColumnValue::Json(j) => sc(ScalarValue::String(format!("json:{j}"))),
    }
}

/// marker field of a `K|` dump entry whose key `scan` lists but `TensorStore::get` refuses
const STORE_GET_FAILS: &str = "<listed-by-scan-but-store-get-fails>";
/// marker field of a `K|` dump entry whose key `scan` lists but the router's own `get` refuses
const ROUTER_GET_FAILS: &str = "<listed-by-scan-but-get-fails>";

fn str_data(field: &str, s: String) -> TensorData {
    let mut d = TensorData::new();
    d.set(field, sc(ScalarValue::String(s)));
    d
}

struct GEdgeView {
    id: u64,
    from: u64,
    to: u64,
    directed: bool,
    ty: String,
}

/// The graph tensor's serialisable state read back field by field: every edge
/// with its id, endpoints, direction flag and the NAME its type index stands
/// for in this slab's registry, plus the registry's list of names.
fn graph_state(r: &SlabRouter) -> (Vec<GEdgeView>, Vec<String>) {
    let v = serde_json::to_value(r.graph.snapshot()).unwrap_or(Value::Null);
    let types: Vec<String> =
        v["edge_types"].as_array().map(|a| a.iter().map(|x| x.as_str().unwrap_or("<not a string>").to_string()).collect()).unwrap_or_default();
    let mut edges: Vec<GEdgeView> = Vec::new();
    if let Some(a) = v["edges"].as_array() {
        for e in a {
            let idx = e["edge_type_idx"].as_u64().unwrap_or(u64::MAX);
            edges.push(GEdgeView {
                id: e["edge_id"].as_u64().unwrap_or(u64::MAX),
                from: e["from"].as_u64().unwrap_or(u64::MAX),
                to: e["to"].as_u64().unwrap_or(u64::MAX),
                directed: e["directed"].as_bool().unwrap_or(false),
                ty: usize::try_from(idx).ok().and_then(|i| types.get(i)).map(|t| format!("{t:?}")).unwrap_or_else(|| "<index outside the type registry>".to_string()),
            });
        }
    }
    edges.sort_by_key(|e| e.id);
    (edges, types)
}

/// Everything observable in a router through its public reads, in sections:
/// `K|` key-addressed entries (`_cache:` excluded: documented transient),
/// `T|` relational slab (schemas, rows, index lookups), `E|` entity index +
/// embedding slab, `G|` graph tensor slab, `B|` blob log chunks.
fn dump_router(r: &SlabRouter, blob_hashes: &[u64], max_edge: u64) -> Dump {
    let mut out = Dump::new();
    // K
    let mut keys = r.scan("");
    keys.sort();
    keys.dedup();
    for k in keys {
        if k.starts_with("_cache:") {
            continue;
        }
        let d = match r.get(&k) {
            Ok(d) => d,
            Err(_) if !k.starts_with("emb:") && !r.exists(&k) && r.index.contains(&k) => {
                // A key of another class left in the entity index (put_durable of a value with
                // an `_embedding` field registers it there; deleting the key does not
                // unregister it): listed by scan(), but it does not exist, has no field and no
                // value - nothing the round-trip clause speaks of. Kept aside in a section
                // that only the exact (file) comparisons of the crash clause see.
                out.insert(format!("Z|listed-but-absent|{k}"), TensorData::new());
                continue;
            },
            Err(_) => str_data(ROUTER_GET_FAILS, String::new()),
        };
        out.insert(format!("K|{k}"), d);
    }
    // T
    for t in r.relations.table_names() {
        let schema = r.relations.get_schema(&t);
        out.insert(format!("T|{t}|schema"), str_data("schema", format!("{schema:?}")));
        let mut meta = TensorData::new();
        meta.set("row_count", sc(ScalarValue::Int(r.relations.row_count(&t).map(|n| n as i64).unwrap_or(-1))));
        out.insert(format!("T|{t}|count"), meta);
        let rows = r.relations.scan_all(&t).unwrap_or_default();
        let mut ci_keys: Vec<i64> = Vec::new();
        let ci_idx = schema.as_ref().and_then(|s| s.column_index("ci"));
        for (rid, row) in &rows {
            let mut d = TensorData::new();
            for (i, c) in row.iter().enumerate() {
                d.set(format!("c{i}"), col_to_value(c));
            }
            // the same row through the point read
            let same = r.relations.get(&t, *rid).ok().flatten().map(|g| format!("{g:?}") == format!("{row:?}")).unwrap_or(false);
            d.set("get_agrees", sc(ScalarValue::Bool(same)));
            out.insert(format!("T|{t}|row|{:08}", rid.as_u64()), d);
            if let (Some(ix), true) = (ci_idx, ci_keys.len() < 12) {
                if let Some(ColumnValue::Int(k)) = row.get(ix) {
                    if !ci_keys.contains(k) {
                        ci_keys.push(*k);
                    }
                }
            }
        }
        for k in ci_keys {
            let mut ids: Vec<u64> = r.relations.index_lookup(&t, "ci", k).unwrap_or_default().iter().map(|x| x.as_u64()).collect();
            ids.sort_unstable();
            out.insert(format!("T|{t}|index|ci|{k}"), str_data("rows", format!("{ids:?}")));
        }
    }
    // E
    let mut ents = r.index.scan_prefix("");
    ents.sort();
    let mut bare = 0usize;
    for (k, id) in ents {
        let mut d = TensorData::new();
        match r.embeddings.get(id) {
            Some(v) => d.set("slab", TensorValue::Vector(v)),
            None if !k.starts_with("emb:") => {
                // an index entry of a key outside the embedding class that leads to no
                // vector (see above) is no embedding and no key, field or value
                out.insert(format!("Z|index-entry-without-vector|{k}"), TensorData::new());
                bare += 1;
                continue;
            },
            None => d.set("slab", sc(ScalarValue::Null)),
        }
        out.insert(format!("E|{k}"), d);
    }
    // embeddings that no key leads to (left behind in the slab) show in the counts
    if r.index.len() > bare || r.embeddings.len() > 0 {
        let mut d = TensorData::new();
        d.set("index_len", sc(ScalarValue::Int((r.index.len() - bare) as i64)));
        d.set("slab_len", sc(ScalarValue::Int(r.embeddings.len() as i64)));
        out.insert("E|count".into(), d);
    }
    // G
    if r.graph.edge_count() > 0 {
        let mut meta = TensorData::new();
        meta.set("edge_count", sc(ScalarValue::Int(r.graph.edge_count() as i64)));
        out.insert("G|count".into(), meta);
        for n in 0..TNODES {
            let node = EntityId::new(n);
            let mut o: Vec<(u64, u64)> = r.graph.outgoing(node).iter().map(|(to, e)| (to.as_u64(), e.as_u64())).collect();
            o.sort_unstable();
            let mut i: Vec<(u64, u64)> = r.graph.incoming(node).iter().map(|(from, e)| (from.as_u64(), e.as_u64())).collect();
            i.sort_unstable();
            if o.is_empty() && i.is_empty() {
                continue;
            }
            let mut d = TensorData::new();
            // (neighbour, edge id) pairs; edge ids are handed to callers and key the edge data
            d.set("out", sc(ScalarValue::Int(o.len() as i64)));
            d.set("in", sc(ScalarValue::Int(i.len() as i64)));
            for (j, (to, e)) in o.iter().enumerate() {
                d.set(format!("out{j:03}.to"), sc(ScalarValue::Int(*to as i64)));
                d.set(format!("out{j:03}.edge"), sc(ScalarValue::Int(*e as i64)));
                let tys: Vec<&str> =
                    EDGE_TYPES.iter().copied().filter(|t| r.graph.edge_exists(node, EntityId::new(*to), Some(t))).collect();
                d.set(format!("out{j:03}.types"), sc(ScalarValue::String(format!("{tys:?}"))));
            }
            for (j, (from, e)) in i.iter().enumerate() {
                d.set(format!("in{j:03}.from"), sc(ScalarValue::Int(*from as i64)));
                d.set(format!("in{j:03}.edge"), sc(ScalarValue::Int(*e as i64)));
            }
            out.insert(format!("G|node|{n:03}"), d);
        }
    }
    for e in 0..max_edge {
        if let Some(d) = r.graph.get_edge_data(EdgeId::new(e)) {
            out.insert(format!("G|data|{e:04}"), d);
        }
    }
    // per edge id: endpoints, direction and TYPE NAME. The public reads above
    // give types only per (from, to) pair and never the direction flag; the
    // slab's own serialisable state (what its next snapshot would carry) names
    // both per edge. Taken last: `snapshot()` merges the pending log, which the
    // save / to_bytes that follows every dump of a live store does anyway.
    let (edges, _types) = graph_state(r);
    for e in edges {
        let mut d = TensorData::new();
        d.set("from", sc(ScalarValue::Int(e.from as i64)));
        d.set("to", sc(ScalarValue::Int(e.to as i64)));
        d.set("directed", sc(ScalarValue::Bool(e.directed)));
        d.set("type", sc(ScalarValue::String(e.ty)));
        out.insert(format!("G|edge|{:06}", e.id), d);
    }
    // B
    for h in blob_hashes {
        if let Some(b) = r.blobs.get(&ChunkHash(*h)) {
            let mut d = TensorData::new();
            d.set("bytes", sc(ScalarValue::Bytes(b)));
            out.insert(format!("B|{h:016x}"), d);
        }
    }
    // (the probe sets - blob hashes, edge ids - grow during a program; every entry
    // above is emitted only if the store has it, so dumps taken at different
    // times of one store state agree)
    if r.blobs.chunk_count() > 0 {
        let mut d = TensorData::new();
        d.set("chunk_count", sc(ScalarValue::Int(r.blobs.chunk_count() as i64)));
        out.insert("B|count".into(), d);
    }
    out
}

fn evalue_to_value(v: &EValue) -> TensorValue {
    match v {
        EValue::Null => sc(ScalarValue::Null),
        EValue::Int(i) => sc(ScalarValue::Int(*i)),
        EValue::Float(f) => sc(ScalarValue::Float(*f)),
        EValue::String(s) => sc(ScalarValue::String(s.clone())),
        EValue::Bool(b) => sc(ScalarValue::Bool(*b)),
        EValue::Bytes(b) => sc(ScalarValue::Bytes(b.clone())),
        EValue::Json(j) => sc(ScalarValue::String(format!("json:{j}"))),
        other => sc(ScalarValue::String(format!("other:{other:?}"))),
    }
}

/// Engine-level reads through engines freshly attached to the store (the same
/// way on both sides of a comparison): `R|` relational engine, `H|` graph engine.
fn dump_engines(store: &TensorStore, rel: bool, graph: bool, n_nodes: u64, n_edges: u64, out: &mut Dump) {
    if rel {
        let eng = RelationalEngine::with_store(store.clone());
        let mut tables = eng.list_tables();
        tables.sort();
        for t in tables {
            match eng.get_schema(&t) {
                Ok(s) => {
                    let cols: Vec<String> = s.columns.iter().map(|c| format!("{}:{:?}:{}", c.name, c.column_type, c.nullable)).collect();
                    out.insert(format!("R|{t}|schema"), str_data("schema", format!("{cols:?} constraints={}", s.constraints.len())));
                },
                Err(e) => {
                    out.insert(format!("R|{t}|schema"), str_data("error", format!("{e}")));
                },
            }
            match eng.select(&t, Condition::True) {
                Ok(rows) => {
                    for row in rows {
                        let mut d = TensorData::new();
                        for (name, v) in &row.values {
                            d.set(name.clone(), evalue_to_value(v));
                        }
                        out.insert(format!("R|{t}|row|{:08}", row.id), d);
                    }
                },
                Err(e) => {
                    out.insert(format!("R|{t}|select"), str_data("error", format!("{e}")));
                },
            }
        }
    }
    if graph {
        let eng = GraphEngine::with_store(store.clone());
        for id in 1..=n_nodes {
            if let Ok(n) = eng.get_node(id) {
                let mut props: Vec<String> = n.properties.iter().map(|(k, v)| format!("{k}={v:?}")).collect();
                props.sort();
                out.insert(format!("H|node|{id:05}"), str_data("node", format!("labels={:?} props={props:?} created={:?}", n.labels, n.created_at)));
            }
        }
        for id in 1..=n_edges {
            if let Ok(e) = eng.get_edge(id) {
                let mut props: Vec<String> = e.properties.iter().map(|(k, v)| format!("{k}={v:?}")).collect();
                props.sort();
                out.insert(
                    format!("H|edge|{id:05}"),
                    str_data("edge", format!("{}->{} type={} directed={} props={props:?}", e.from, e.to, e.edge_type, e.directed)),
                );
            }
        }
    }
}

fn kind_name(v: &TensorValue) -> &'static str {
    match v {
        TensorValue::Scalar(ScalarValue::Null) => "null",
        TensorValue::Scalar(ScalarValue::Bool(_)) => "bool",
        TensorValue::Scalar(ScalarValue::Int(_)) => "int",
        TensorValue::Scalar(ScalarValue::Float(_)) => "float",
        TensorValue::Scalar(ScalarValue::String(_)) => "string",
        TensorValue::Scalar(ScalarValue::Bytes(_)) => "bytes",
        TensorValue::Vector(_) => "vector",
        TensorValue::Sparse(_) => "sparse",
        TensorValue::Pointer(_) => "pointer",
        TensorValue::Pointers(_) => "pointers",
    }
}

fn dense_of(v: &TensorValue) -> Option<Vec<f32>> {
    match v {
        TensorValue::Vector(x) => Some(x.clone()),
        TensorValue::Sparse(s) => Some(s.to_dense()),
        _ => None,
    }
}

/// How two values must agree.
#[derive(Clone, Copy, PartialEq)]
enum Eqv {
    /// "Vectors shorter than the documented compression threshold are
    /// bit-identical and longer ones are within the documented reconstruction
    /// tolerance"; everything else bit-exact.
    Exact,
    /// quantising format: "held to exactness for everything except vector
    /// payloads, which are held to its configured quantisation error";
    /// `lossy` = the configuration has a lossy vector mode switched on.
    Quant { lossy: bool },
}

fn values_agree(a: &TensorValue, b: &TensorValue, e: Eqv) -> bool {
    match e {
        Eqv::Exact => value_equiv(a, b, TOL),
        Eqv::Quant { lossy } => match (dense_of(a), dense_of(b)) {
            (Some(x), Some(y)) => {
                // vector payload: compared as dense payloads (the format stores a
                // sparse vector as its dense payload)
                if x.len() != y.len() {
                    return false;
                }
                if x.iter().zip(y.iter()).all(|(p, q)| p.to_bits() == q.to_bits()) {
                    return true;
                }
                if !lossy {
                    // no lossy mode configured: only the sign of zero may differ
                    return x.iter().zip(y.iter()).all(|(p, q)| p.to_bits() == q.to_bits() || (*p == 0.0 && *q == 0.0));
                }
                let mut num = 0f64;
                let mut den = 0f64;
                for (p, q) in x.iter().zip(y.iter()) {
                    if !p.is_finite() || !q.is_finite() {
                        return false;
                    }
                    num += f64::from(p - q) * f64::from(p - q);
                    den += f64::from(*p) * f64::from(*p);
                }
                num.sqrt() <= f64::from(TOL) * den.sqrt().max(1e-9)
            },
            (None, None) => canon_value(a) == canon_value(b),
            _ => false,
        },
    }
}

struct Diff {
    section: String,
    kind: String,
    detail: String,
}

fn short(s: &str) -> String {
    if s.chars().count() > 200 {
        let cut: String = s.chars().take(200).collect();
        format!("{cut}..(len {})", s.len())
    } else {
        s.to_string()
    }
}

/// First difference, sections in a fixed order (store-level T, G, B, E, K, then
/// the engine-level views R, H derived from them) so that the class of a given
/// defect does not depend on what else is in the store.
fn first_diff(exp: &Dump, got: &Dump, e: Eqv) -> Option<Diff> {
    for sec in ["T|", "G|", "B|", "E|", "K|", "R|", "H|"] {
        let section = sec.trim_end_matches('|').to_string();
        for (k, v) in exp.range(sec.to_string()..).take_while(|(k, _)| k.starts_with(sec)) {
            match got.get(k) {
                None => {
                    return Some(Diff { section, kind: "missing".into(), detail: format!("{k}: expected {} got <absent>", short(&canon_data(v))) })
                },
                Some(g) if g.get(STORE_GET_FAILS).is_some() && v.get(STORE_GET_FAILS).is_none() => {
                    return Some(Diff {
                        section,
                        kind: "store-get-fails".into(),
                        detail: format!("{k}: scan() lists the key but reading it through the store fails: {}", short(&canon_data(g))),
                    })
                },
                Some(g) => {
                    let mut names: Vec<&String> = v.keys().collect();
                    names.sort();
                    for f in names {
                        let a = v.get(f).unwrap();
                        match g.get(f) {
                            None => {
                                return Some(Diff {
                                    section,
                                    kind: format!("field-missing-{}", kind_name(a)),
                                    detail: format!("{k}: field {f:?} ({}) absent after load", short(&canon_value(a))),
                                })
                            },
                            Some(b) => {
                                if !values_agree(a, b, e) {
                                    return Some(Diff {
                                        section,
                                        kind: format!("value-{}", kind_name(a)),
                                        detail: format!("{k}: field {f:?} expected {} got {}", short(&canon_value(a)), short(&canon_value(b))),
                                    });
                                }
                            },
                        }
                    }
                    if g.len() != v.len() {
                        let extra: Vec<&String> = g.keys().filter(|f| v.get(f).is_none()).collect();
                        return Some(Diff { section, kind: "field-extra".into(), detail: format!("{k}: fields {extra:?} appeared after load") });
                    }
                },
            }
        }
        for (k, g) in got.range(sec.to_string()..).take_while(|(k, _)| k.starts_with(sec)) {
            if !exp.contains_key(k) {
                return Some(Diff { section, kind: "extra".into(), detail: format!("{k}: expected <absent> got {}", short(&canon_data(g))) });
            }
        }
    }
    None
}

// ---------------------------------------------------------------- the trial

enum Live {
    Store(TensorStore),
    Router(Box<SlabRouter>),
}

impl Live {
    fn router(&self) -> &SlabRouter {
        match self {
            Live::Store(s) => s.router(),
            Live::Router(r) => r,
        }
    }
    fn store(&self) -> Option<&TensorStore> {
        match self {
            Live::Store(s) => Some(s),
            Live::Router(_) => None,
        }
    }
    fn has_wal(&self) -> bool {
        self.router().has_wal()
    }
}

fn small_config() -> SlabRouterConfig {
    SlabRouterConfig { embedding_dim: SMALL_DIM, blob_segment_size: 256, ..SlabRouterConfig::default() }
}

fn small_router() -> SlabRouter {
    SlabRouter::with_config(&small_config())
}

/// log configuration of a log-backed store under test (`Case::wal` 1..=3)
fn wal_config(wal: u8) -> WalConfig {
    WalConfig {
        sync_mode: match wal {
            2 => SyncMode::Batched { max_entries: 3 },
            3 => SyncMode::Manual,
            _ => SyncMode::Immediate,
        },
        ..WalConfig::default()
    }
}

/// The store a program (or a new process after a crash that found no snapshot)
/// starts on: with or without a log, as the case says.
fn fresh_live(ctx: &RunCtx, case: &Case, dir: &str) -> Live {
    if case.wal != 0 {
        let wal = format!("{dir}/wal.log");
        let r = if case.cfg == 1 {
            SlabRouter::with_wal_and_config(&wal, wal_config(case.wal), &small_config()).map(|r| Live::Router(Box::new(r)))
        } else {
            TensorStore::open_durable(&wal, wal_config(case.wal)).map(Live::Store)
        };
        match r {
            Ok(l) => return l,
            Err(e) => ctx.event(&format!("opening a log-backed store failed ({e}); the program runs on a store without a log")),
        }
    }
    if case.cfg == 1 {
        Live::Router(Box::new(small_router()))
    } else {
        Live::Store(TensorStore::new())
    }
}

struct Trial<'a> {
    ctx: &'a Arc<RunCtx>,
    case: &'a Case,
    dir: String,
    live: Live,
    rel: Option<RelationalEngine>,
    gr: Option<GraphEngine>,
    blob_hashes: Vec<u64>,
    tedges: Vec<u64>,
    /// graph-tensor edge type names in the order this store first saw them (the
    /// order of its type registry; used for a coverage probe only)
    type_order: Vec<&'static str>,
    n_gnodes: u64,
    n_gedges: u64,
    uses_rel: bool,
    uses_graph: bool,
    /// the store that received the last `StoreOver` restore, with the fill
    /// bookkeeping of the programs that ran on it
    receiver: Option<(TensorStore, SideBook)>,
    /// path -> what loading the last completed snapshot at that path yields
    saved: BTreeMap<String, Dump>,
    /// path of the last completed checkpoint of the live store object (coverage probe only)
    last_checkpoint: Option<String>,
    pending: Vec<Violation>,
    observations: Vec<String>,
    crashes_fired: u64,
    verified_pairs: u64,
}

enum Outcome {
    Ok,
    Bad(Violation),
}

/// fill bookkeeping of a store other than the live one
#[derive(Default)]
struct SideBook {
    tedges: Vec<u64>,
    type_order: Vec<&'static str>,
    n_gnodes: u64,
    n_gedges: u64,
}

fn all_steps(steps: &[Step]) -> Vec<&Step> {
    let mut v = Vec::new();
    for s in steps {
        v.push(s);
        if let Step::Bytes { target, .. } = s {
            v.extend(all_steps(target));
        }
    }
    v
}

/// per Save step of the dry run: its syscalls and the clean-load reference
#[derive(Clone)]
struct SaveRec {
    step: usize,
    sys: Vec<SysEvent>,
    reference: Option<Dump>,
}

impl<'a> Trial<'a> {
    fn new(ctx: &'a Arc<RunCtx>, case: &'a Case, tag: u64) -> Self {
        let root = ctx.node_dir(NODE);
        let dir = format!("{root}/t{tag}");
        let _ = std::fs::create_dir_all(format!("{dir}/ref"));
        let live = fresh_live(ctx, case, &dir);
        // (the fill programs of receiving stores count: what they leave behind must be looked for)
        let uses_rel = all_steps(&case.steps).iter().any(|s| matches!(s, Step::Table { engine: true, .. }));
        let uses_graph = all_steps(&case.steps).iter().any(|s| matches!(s, Step::GNode { .. }));
        Trial {
            ctx,
            case,
            dir,
            live,
            rel: None,
            gr: None,
            blob_hashes: Vec::new(),
            tedges: Vec::new(),
            type_order: Vec::new(),
            n_gnodes: 0,
            n_gedges: 0,
            uses_rel,
            uses_graph,
            receiver: None,
            saved: BTreeMap::new(),
            last_checkpoint: None,
            pending: Vec::new(),
            observations: Vec::new(),
            crashes_fired: 0,
            verified_pairs: 0,
        }
    }

    fn cleanup(&mut self) {
        if self.live.has_wal() {
            // close the log before its directory goes
            self.rel = None;
            self.gr = None;
            self.live = Live::Router(Box::new(small_router()));
        }
        let _ = std::fs::remove_dir_all(&self.dir);
        self.ctx.forget_prefix(&self.dir);
    }

    fn observe_mode(&self) -> bool {
        self.case.observe != 0
    }

    fn dim(&self) -> usize {
        if self.case.cfg == 1 {
            SMALL_DIM
        } else {
            384
        }
    }

    fn full_dump_of(&self, live: &Live) -> Dump {
        let mut d = dump_router(live.router(), &self.blob_hashes, 48);
        if let Some(s) = live.store() {
            if s.has_bloom_filter() {
                // a store built with a Bloom filter answers `get`/`exists` through it:
                // every key the store lists must also be readable through the store
                for (k, v) in d.range_mut("K|".to_string()..).take_while(|(k, _)| k.starts_with("K|")) {
                    let key = &k[2..];
                    if v.get(ROUTER_GET_FAILS).is_some() {
                        // the router itself lists the key without holding a value for it (a
                        // key left in the entity index): the same on a store with and without a
                        // filter, and nothing the filter decides
                        continue;
                    }
                    match s.get(key) {
                        Ok(g) => {
                            if !s.exists(key) {
                                *v = str_data(STORE_GET_FAILS, "exists() is false for a key that scan() lists and get() returns".into());
                            } else if canon_data(&g) != canon_data(v) {
                                *v = g;
                            }
                        },
                        Err(e) => *v = str_data(STORE_GET_FAILS, format!("{e}")),
                    }
                }
                // cache-class keys are transient and not compared with the
                // original, but a store must agree with itself: what it lists
                // and holds it must not deny through its own filter
                let mut cache_keys = live.router().scan("_cache:");
                cache_keys.sort();
                for k in cache_keys {
                    if live.router().get(&k).is_ok() && !s.exists(&k) {
                        d.insert(format!("K|{k}"), str_data(STORE_GET_FAILS, "exists() is false for a cache key that scan() lists and the router holds".into()));
                    }
                }
            }
            if self.uses_rel || self.uses_graph {
                // fixed id ranges: what is probed must not depend on when the dump is taken
                dump_engines(s, self.uses_rel, self.uses_graph, 24, 24, &mut d);
            }
        }
        d
    }

    fn full_dump(&self) -> Dump {
        self.full_dump_of(&self.live)
    }

    fn rel(&mut self) -> Option<&RelationalEngine> {
        if self.rel.is_none() {
            let s = self.live.store()?.clone();
            self.rel = Some(RelationalEngine::with_store(s));
        }
        self.rel.as_ref()
    }

    fn gr(&mut self) -> Option<&GraphEngine> {
        if self.gr.is_none() {
            let s = self.live.store()?.clone();
            self.gr = Some(GraphEngine::with_store(s));
        }
        self.gr.as_ref()
    }

    fn put(&self, key: &str, val: TensorData) {
        match &self.live {
            Live::Store(s) => {
                let _ = s.put(key, val);
            },
            Live::Router(r) => {
                let _ = r.put(key, val);
            },
        }
    }

    fn path_for(&self, fmt: Fmt, p: u8) -> String {
        match fmt {
            Fmt::Quant { .. } => format!("{}/q.bin", self.dir),
            _ => {
                if p % 2 == 0 {
                    format!("{}/store.snap", self.dir)
                } else {
                    // no extension: the temp file is "data.tmp"
                    format!("{}/data", self.dir)
                }
            },
        }
    }

    fn quant_config(q: u8) -> tensor_compress::CompressionConfig {
        if q == 0 {
            tensor_compress::CompressionConfig::default()
        } else {
            tensor_compress::CompressionConfig::balanced(384)
        }
    }

    fn save(&self, fmt: Fmt, live: &Live, path: &str) -> Result<(), String> {
        match (fmt, live) {
            (Fmt::Default, Live::Store(s)) => s.save_snapshot(path).map_err(|e| e.to_string()),
            (Fmt::Default, Live::Router(r)) => r.save_to_file(path).map_err(|e| e.to_string()),
            (Fmt::Uncompressed, l) => tensor_store::snapshot::save_v3_uncompressed(l.router(), path).map_err(|e| e.to_string()),
            (Fmt::Quant { q }, Live::Store(s)) => s.save_snapshot_compressed(path, Self::quant_config(q)).map_err(|e| e.to_string()),
            (Fmt::Quant { .. }, Live::Router(_)) => Err("quantising format needs a TensorStore".into()),
            (Fmt::Checkpoint, Live::Store(s)) => s.checkpoint(path).map(|_| ()).map_err(|e| e.to_string()),
            (Fmt::Checkpoint, Live::Router(r)) => r.checkpoint(Path::new(path)).map(|_| ()).map_err(|e| e.to_string()),
        }
    }

    /// The process that starts after a crash of a log-backed store: the snapshot
    /// at `path` (if given) under a NEW, empty log. The old log is put aside
    /// unread: what replaying it would add is C02's subject, not judged here.
    fn restart_log_backed(&self, path: Option<&str>) -> Option<Live> {
        if self.case.wal == 0 {
            return None;
        }
        let wal = format!("{}/wal.log", self.dir);
        for f in [wal.clone(), format!("{wal}.1"), format!("{wal}.2")] {
            let _ = std::fs::remove_file(f);
        }
        let Some(path) = path else {
            return Some(fresh_live(self.ctx, self.case, &self.dir));
        };
        let cfg = wal_config(self.case.wal);
        let r = if self.case.cfg == 1 {
            SlabRouter::recover(&wal, &cfg, Some(Path::new(path))).map(|r| Live::Router(Box::new(r))).map_err(|e| e.to_string())
        } else {
            TensorStore::recover(&wal, &cfg, Some(Path::new(path))).map(Live::Store).map_err(|e| e.to_string())
        };
        match r {
            Ok(l) => {
                self.ctx.probe("restart_log_backed_from_snapshot");
                Some(l)
            },
            Err(e) => {
                self.ctx.event(&format!("restart of the log-backed store from the snapshot failed ({e}); continuing on the loaded store"));
                None
            },
        }
    }

    fn load(&self, fmt: Fmt, path: &str) -> Result<Live, String> {
        if self.case.cfg == 1 {
            return SlabRouter::load_from_file(path).map(|r| Live::Router(Box::new(r))).map_err(|e| e.to_string());
        }
        match fmt {
            Fmt::Quant { .. } => TensorStore::load_snapshot_compressed(path).map(Live::Store).map_err(|e| e.to_string()),
            _ if self.case.bloom_loader => {
                self.ctx.probe("file_loaded_with_bloom_filter");
                TensorStore::load_snapshot_with_bloom_filter(path, 1000, 0.01).map(Live::Store).map_err(|e| e.to_string())
            },
            _ => TensorStore::load_snapshot(path).map(Live::Store).map_err(|e| e.to_string()),
        }
    }

    fn eqv(fmt: Fmt) -> Eqv {
        match fmt {
            Fmt::Quant { q } => Eqv::Quant { lossy: q != 0 },
            _ => Eqv::Exact,
        }
    }

    fn pend(&mut self, class: String, detail: String) {
        self.ctx.event(&format!("violation {class}: {detail}"));
        if !self.pending.iter().any(|v| v.class == class) {
            self.pending.push(Violation { class, detail });
        }
    }

    /// Round-trip clause on one successful save/load pair: "Saving a store and
    /// loading it back ... gives a store whose every key, field and value
    /// equals the original across all data classes".
    fn check_roundtrip(&mut self, what: &str, name: &str, original: &Dump, loaded: &Dump, e: Eqv) {
        self.verified_pairs += 1;
        if original.keys().any(|k| k.starts_with("Z|listed-but-absent|")) {
            self.ctx.probe("store_lists_a_deleted_key");
            let o = "observation(outside C07: the store under test lists, through scan(), a key that was deleted and does not exist - put_durable of a non-embedding-class key with an `_embedding` field registers the key in the entity index, delete does not unregister it; such keys are not compared)".to_string();
            if !self.observations.contains(&o) {
                self.observations.push(o);
            }
        }
        if original.keys().any(|k| k.starts_with("T|") && k.contains("|row|")) {
            self.ctx.probe("relational_rows_in_snapshot");
        }
        if original.iter().any(|(k, d)| k.starts_with("E|") && matches!(d.get("slab"), Some(TensorValue::Vector(v)) if v.len() >= 256)) {
            self.ctx.probe("vector_above_threshold");
        }
        if let Some(d) = first_diff(original, loaded, e) {
            self.pend(format!("roundtrip/{name}/{}/{}", d.section, d.kind), format!("{what}: after a {name} round trip: {}", d.detail));
        }
    }

    fn exec_fill(&mut self, step: &Step) {
        match step {
            Step::Put { class, idx, kind, u } => {
                let key = key_for(*class, *idx);
                self.put(&key, value_for(*kind, *u));
            },
            Step::PutMany { class, start, n, u } => {
                for j in 0..*n {
                    let key = key_for(*class, start.wrapping_add(j));
                    // cheap kinds for bulk: everything except the 384-element and large ones
                    let kind = [0u8, 1, 2, 3, 4, 5, 6, 7, 8, 9, 11, 13, 15][(j as usize + *u as usize) % 13];
                    self.put(&key, value_for(kind, u.wrapping_add(u32::from(j))));
                }
            },
            Step::PutSame { class, start, n, kind, u } => {
                let v = value_for(*kind, *u);
                for j in 0..*n {
                    let key = key_for(*class, start.wrapping_add(j));
                    self.put(&key, v.clone());
                }
                if *n >= 10_000 {
                    self.ctx.probe("store_of_tens_of_thousands_of_entries");
                }
            },
            Step::Del { class, idx } => {
                let key = key_for(*class, *idx);
                match &self.live {
                    Live::Store(s) => {
                        let _ = s.delete(&key);
                    },
                    Live::Router(r) => {
                        let _ = r.delete(&key);
                    },
                }
            },
            Step::PutD { class, idx, kind, u } => {
                let key = key_for(*class, *idx);
                let val = value_for(*kind, *u);
                match &self.live {
                    Live::Store(s) => {
                        let _ = s.put_durable(key, val);
                    },
                    Live::Router(r) => {
                        let _ = r.put_durable(&key, val);
                    },
                }
            },
            Step::DelD { class, idx } => {
                let key = key_for(*class, *idx);
                match &self.live {
                    Live::Store(s) => {
                        let _ = s.delete_durable(&key);
                    },
                    Live::Router(r) => {
                        let _ = r.delete_durable(&key);
                    },
                }
            },
            Step::Sync => {
                let _ = self.live.router().wal_sync();
            },
            Step::Table { t, engine } => {
                if *engine {
                    let name = format!("e{}", t % 3);
                    if let Some(e) = self.rel() {
                        let _ = e.create_table(&name, engine_schema());
                    }
                } else {
                    let _ = self.live.router().relations.create_table(&format!("t{}", t % 3), slab_schema(*t));
                }
            },
            Step::Rows { t, engine, n, u } => {
                if *engine {
                    let name = format!("e{}", t % 3);
                    if let Some(e) = self.rel() {
                        for j in 0..(*n).min(40) {
                            let _ = e.insert(&name, engine_row(u.wrapping_add(u32::from(j))));
                        }
                    }
                } else {
                    let rows: Vec<Vec<ColumnValue>> = (0..*n).map(|j| slab_row(*t, u.wrapping_add(u32::from(j)))).collect();
                    let _ = self.live.router().relations.batch_insert(&format!("t{}", t % 3), rows);
                }
            },
            Step::RowDel { t, engine, row } => {
                if *engine {
                    let name = format!("e{}", t % 3);
                    if let Some(e) = self.rel() {
                        // delete by primary value of one of the early rows
                        if let Ok(rows) = e.select(&name, Condition::True) {
                            if !rows.is_empty() {
                                let victim = &rows[*row as usize % rows.len()];
                                if let Some(EValue::Int(id)) = victim.get("id") {
                                    let _ = e.delete_rows(&name, Condition::Eq("id".into(), EValue::Int(*id)));
                                }
                            }
                        }
                    }
                } else {
                    let _ = self.live.router().relations.delete(&format!("t{}", t % 3), RowId::new(u64::from(*row)));
                }
            },
            Step::RowUpd { t, row, u } => {
                let r = slab_row(*t, *u);
                if t % 3 == 2 {
                    let _ = self.live.router().relations.update_row(&format!("t{}", t % 3), RowId::new(u64::from(*row)), &[("only".into(), r[0].clone())]);
                } else {
                    let _ = self.live.router().relations.update_row(
                        &format!("t{}", t % 3),
                        RowId::new(u64::from(*row)),
                        &[("cs".into(), r[3].clone()), ("cf".into(), r[2].clone()), ("cx".into(), r[5].clone())],
                    );
                }
            },
            Step::Index { t, engine } => {
                if *engine {
                    let name = format!("e{}", t % 3);
                    if let Some(e) = self.rel() {
                        let _ = e.create_index(&name, "ci");
                    }
                } else {
                    let _ = self.live.router().relations.create_index(&format!("t{}", t % 3), "ci");
                }
            },
            Step::Emb { idx, shape, u } => {
                let dim = self.dim();
                // unstructured dense vectors only in the observation configuration;
                // the sub-cut-off shape only where short vectors must be bit-identical
                let shape = match (*shape % 8, self.case.observe, self.case.cfg) {
                    (6 | 7, 2, _) => *shape % 8,
                    (7, _, _) => 0,
                    (6, _, 0) => 3,
                    (5, _, 0) => 1,
                    (s, _, _) => s,
                };
                let mut d = TensorData::new();
                d.set("_u", sc(ScalarValue::Int(i64::from(*u))));
                d.set("label", sc(ScalarValue::String(format!("E{u}"))));
                d.set("_embedding", TensorValue::Vector(emb_vec(shape, *u, dim)));
                self.put(&format!("emb:{idx}"), d);
            },
            Step::GNode { u } => {
                if let Some(g) = self.gr() {
                    let mut props = HashMap::new();
                    props.insert("name".to_string(), PropertyValue::String(format!("n{u}")));
                    props.insert("w".to_string(), PropertyValue::Float(if u % 3 == 0 { f64::NAN } else { f64::from(*u) * 0.5 }));
                    props.insert("i".to_string(), PropertyValue::Int(if u % 2 == 0 { i64::MIN } else { i64::from(*u) }));
                    props.insert("b".to_string(), PropertyValue::Bool(u % 2 == 0));
                    props.insert("z".to_string(), PropertyValue::Null);
                    if g.create_node(format!("L{}", u % 3), props).is_ok() {
                        self.n_gnodes += 1;
                    }
                }
            },
            Step::GEdge { a, b, u } => {
                let n = self.n_gnodes;
                if n > 0 {
                    let from = 1 + u64::from(*a) % n;
                    let to = 1 + u64::from(*b) % n;
                    if let Some(g) = self.gr() {
                        let mut props = HashMap::new();
                        props.insert("since".to_string(), PropertyValue::Int(i64::from(*u)));
                        if g.create_edge(from, to, EDGE_TYPES[*u as usize % 3], props, u % 2 == 0).is_ok() {
                            self.n_gedges += 1;
                        }
                    }
                }
            },
            Step::TEdge { from, to, ty, directed, u } => {
                let name = EDGE_TYPES[*ty as usize % EDGE_TYPES.len()];
                if name != "default" && !self.type_order.contains(&name) {
                    self.type_order.push(name);
                }
                let g = &self.live.router().graph;
                let e = g.add_edge(EntityId::new(u64::from(*from) % TNODES), EntityId::new(u64::from(*to) % TNODES), name, *directed);
                if u % 3 != 0 {
                    g.set_edge_data(e, value_for((*u % 10) as u8, *u));
                }
                self.tedges.push(e.as_u64());
            },
            Step::TEdgeDel { e } => {
                if !self.tedges.is_empty() {
                    let id = self.tedges[*e as usize % self.tedges.len()];
                    let _ = self.live.router().graph.delete_edge(EdgeId::new(id));
                }
            },
            Step::Blob { len, u } => {
                let data: Vec<u8> = (0..*len as usize).map(|i| (i as u32).wrapping_mul(31).wrapping_add(*u) as u8).collect();
                let mut tagged = u.to_le_bytes().to_vec();
                tagged.extend_from_slice(&data);
                let h = self.live.router().blobs.append(&tagged);
                if !self.blob_hashes.contains(&h.as_u64()) {
                    self.blob_hashes.push(h.as_u64());
                }
            },
            Step::BlobDrop { pick } => {
                // among the chunks THIS store holds (the list also names chunks appended to
                // receiving stores of bytes-form steps, which crash trials do not re-run)
                let r = self.live.router();
                let held: Vec<u64> = self.blob_hashes.iter().copied().filter(|h| r.blobs.get(&ChunkHash(*h)).is_some()).collect();
                if !held.is_empty() {
                    // the hash stays in the list: the dump shows the dropped chunk as absent,
                    // and so must every copy of the store
                    let h = held[*pick as usize % held.len()];
                    r.blobs.mark_garbage(&ChunkHash(h));
                    r.blobs.compact();
                    self.ctx.probe("blob_log_compacted");
                }
            },
            Step::Save { .. } | Step::Bytes { .. } => {},
        }
    }

    /// Runs a fill program on a store other than the live one, through the same
    /// step code (engines attached to that store for the duration).
    fn fill_other(&mut self, store: &TensorStore, steps: &[Step], book: &mut SideBook) {
        let live = std::mem::replace(&mut self.live, Live::Store(store.clone()));
        let rel = self.rel.take();
        let gr = self.gr.take();
        std::mem::swap(&mut self.tedges, &mut book.tedges);
        std::mem::swap(&mut self.type_order, &mut book.type_order);
        std::mem::swap(&mut self.n_gnodes, &mut book.n_gnodes);
        std::mem::swap(&mut self.n_gedges, &mut book.n_gedges);
        for s in steps {
            self.exec_fill(s);
        }
        std::mem::swap(&mut self.tedges, &mut book.tedges);
        std::mem::swap(&mut self.type_order, &mut book.type_order);
        std::mem::swap(&mut self.n_gnodes, &mut book.n_gnodes);
        std::mem::swap(&mut self.n_gedges, &mut book.n_gedges);
        self.live = live;
        self.rel = rel;
        self.gr = gr;
    }

    fn exec_bytes(&mut self, i: usize, step: &Step) {
        let Step::Bytes { form, target: program, tcfg, reuse } = step else { return };
        let form = *form;
        let what = format!("step {i} ({form:?})");
        let original = self.full_dump();
        match form {
            BytesForm::Router => {
                let bytes = match self.live.router().to_bytes() {
                    Ok(b) => b,
                    Err(e) => {
                        self.observations.push(format!("to_bytes failed: {e}"));
                        return;
                    },
                };
                match SlabRouter::from_bytes(&bytes) {
                    Ok(r) => {
                        let l = Live::Router(Box::new(r));
                        // engine-level sections need a TensorStore: compare the router sections
                        let mut orig = original.clone();
                        orig.retain(|k, _| !k.starts_with("R|") && !k.starts_with("H|"));
                        let loaded = dump_router(l.router(), &self.blob_hashes, 48);
                        self.check_roundtrip(&what, form.name(), &orig, &loaded, Eqv::Exact);
                    },
                    Err(e) => self.pend(format!("roundtrip/{}/load-failed", form.name()), format!("{what}: from_bytes of to_bytes output failed: {e}")),
                }
            },
            BytesForm::StoreFresh | BytesForm::StoreOver => {
                let Some(s) = self.live.store() else { return };
                let bytes = match s.snapshot_bytes() {
                    Ok(b) => b,
                    Err(e) => {
                        self.observations.push(format!("snapshot_bytes failed: {e}"));
                        return;
                    },
                };
                let (target, mut book) = match (form == BytesForm::StoreOver && *reuse, self.receiver.take()) {
                    (true, Some(r)) => {
                        self.ctx.probe("restore_into_earlier_receiver");
                        r
                    },
                    _ => {
                        let t = if form == BytesForm::StoreOver && *tcfg % 2 == 1 { TensorStore::with_bloom_filter(1000, 0.01) } else { TensorStore::new() };
                        (t, SideBook::default())
                    },
                };
                if form == BytesForm::StoreOver {
                    // the receiving store has a life of its own before the restore: other
                    // entries under the same and other keys, other tables and rows, other
                    // graph-tensor edges (types first seen in another order, deleted
                    // edges), blob chunks, embeddings and deleted entities
                    let _ = target.put("plain:stale", value_for(4, 1));
                    let _ = target.put("emb:stale", value_for(10, 2));
                    let _ = target.router().relations.create_table("stale", slab_schema(2));
                    let _ = target.router().relations.insert("stale", slab_row(2, 4));
                    let program = program.clone();
                    self.fill_other(&target, &program, &mut book);
                    let r = target.router();
                    // (public reads only: the receiving store must meet the restore in the
                    // state its program left it in - pending log and deleted set unmerged)
                    let src_edges = self.live.router().graph.edge_count();
                    let rcv_edges = r.graph.edge_count();
                    let ents = (r.index.len(), r.index.total_entries());
                    self.ctx.event(&format!(
                        "{what}: receiving store before the restore: {} keys, {} tables, {} graph-tensor edges (types {:?}), {} blob chunks, {} entities ({} deleted), bloom filter {}",
                        r.scan("").len(),
                        r.relations.table_count(),
                        rcv_edges,
                        book.type_order,
                        r.blobs.chunk_count(),
                        ents.0,
                        ents.1 - ents.0.min(ents.1),
                        target.has_bloom_filter()
                    ));
                    let has = |sec: &str| original.keys().any(|k| k.starts_with(sec));
                    if rcv_edges > 0 && src_edges > 0 {
                        self.ctx.probe("restore_over_graph_edges");
                    }
                    if src_edges > 0 && self.type_order.iter().zip(book.type_order.iter()).any(|(a, b)| a != b) {
                        self.ctx.probe("restore_over_other_edge_type_order");
                    }
                    if r.graph.pending_count() > 0 && r.graph.edge_count() < r.graph.pending_count() && src_edges > 0 {
                        self.ctx.probe("restore_over_unmerged_deleted_edges");
                    }
                    if r.relations.table_count() > 1 && has("T|") {
                        self.ctx.probe("restore_over_relational_tables");
                    }
                    if r.blobs.chunk_count() > 0 && has("B|") {
                        self.ctx.probe("restore_over_blob_chunks");
                    }
                    if ents.1 > ents.0 && has("E|") {
                        self.ctx.probe("restore_over_deleted_entities");
                    }
                    if target.has_bloom_filter() {
                        self.ctx.probe("restore_into_bloom_filter_store");
                    }
                }
                match target.restore_from_bytes(&bytes) {
                    Ok(()) => {
                        let l = Live::Store(target.clone());
                        let loaded = self.full_dump_of(&l);
                        self.check_roundtrip(&what, form.name(), &original, &loaded, Eqv::Exact);
                    },
                    Err(e) => self.pend(format!("roundtrip/{}/load-failed", form.name()), format!("{what}: restore_from_bytes of snapshot_bytes output failed: {e}")),
                }
                if form == BytesForm::StoreOver {
                    // its type registry is the source's now
                    book.type_order = self.type_order.clone();
                    self.receiver = Some((target, book));
                }
            },
        }
    }

    /// What a complete, uninterrupted snapshot of the live store yields when loaded.
    fn clean_reference(&mut self, fmt: Fmt, name: &str) -> Result<Dump, String> {
        let rp = format!("{}/ref/{name}", self.dir);
        // a checkpoint writes the default file format; the reference must not touch the log
        let save_fmt = if fmt == Fmt::Checkpoint { Fmt::Default } else { fmt };
        self.save(save_fmt, &self.live, &rp)?;
        let l = self.load(fmt, &rp)?;
        let d = self.full_dump_of(&l);
        let _ = std::fs::remove_file(&rp);
        Ok(d)
    }

    /// One Save step. `crash`: the crash to inject into it. `reference`: the
    /// clean-load reference of this step from the dry run (valid only while the
    /// trial has not deviated from the dry run).
    fn exec_save(
        &mut self,
        i: usize,
        fmt: Fmt,
        p: u8,
        crash: Option<&CrashSpec>,
        reference: Option<&Dump>,
        record: Option<&mut Vec<SaveRec>>,
    ) -> Outcome {
        let ctx = self.ctx;
        if fmt.is_quant() && self.live.store().is_none() {
            return Outcome::Ok;
        }
        let path = self.path_for(fmt, p);
        let fname = Path::new(&path).file_name().map(|s| s.to_string_lossy().into_owned()).unwrap_or_default();
        let name = fmt.name();
        let what = format!("step {i} (Save {name} -> {fname})");

        let Some(c) = crash else {
            // ---- no crash in this save
            let verify = reference.is_none();
            let original = if verify { Some(self.full_dump()) } else { None };
            if fmt == Fmt::Checkpoint && self.live.has_wal() {
                ctx.probe("checkpoint_of_log_backed_store");
                let st = self.live.router().wal_status();
                let log_empty = st.as_ref().is_some_and(|s| s.size_bytes == 0);
                ctx.event(&format!("{what}: log holds {} entries before the checkpoint", st.map(|s| s.entry_count).unwrap_or(0)));
                if !log_empty {
                    ctx.probe("checkpoint_with_logged_changes");
                } else if let (Some(o), true) = (&original, self.last_checkpoint.as_deref() == Some(path.as_str())) {
                    // changed through calls that are not logged only, since this store's
                    // previous checkpoint to the same path
                    if self.saved.get(&path).is_some_and(|prev| !maps_equiv(prev, o, TOL)) {
                        ctx.probe("checkpoint_again_with_empty_log_after_unlogged_changes");
                    }
                }
            }
            if record.is_some() {
                ctx.start_sys_recording();
            }
            let r = self.save(fmt, &self.live, &path);
            let sys = if record.is_some() {
                let s = ctx.take_sys_log();
                ctx.lock().record_sys = false;
                s
            } else {
                Vec::new()
            };
            if let Err(e) = r {
                // the statement is about completed saves; a refused save is reported, not judged
                ctx.event(&format!("{what}: save returned an error: {e}"));
                let o = format!("observation: {name} save returned an error without any injected fault: {}", short(&e));
                if !self.observations.contains(&o) {
                    self.observations.push(o);
                }
                if let Some(rec) = record {
                    rec.push(SaveRec { step: i, sys: Vec::new(), reference: None });
                }
                return Outcome::Ok;
            }
            let loaded_dump = if let Some(original) = original {
                match self.load(fmt, &path) {
                    Ok(l) => {
                        let ld = self.full_dump_of(&l);
                        self.check_roundtrip(&what, name, &original, &ld, Self::eqv(fmt));
                        ctx.event(&format!("{what}: saved and loaded back, {} dump entries", ld.len()));
                        ld
                    },
                    Err(e) => {
                        self.pend(format!("roundtrip/{name}/load-failed"), format!("{what}: loading a snapshot that was just saved failed: {e}"));
                        original
                    },
                }
            } else {
                reference.cloned().unwrap_or_default()
            };
            if let Some(rec) = record {
                rec.push(SaveRec { step: i, sys, reference: Some(loaded_dump.clone()) });
            }
            if fmt == Fmt::Checkpoint {
                self.last_checkpoint = Some(path.clone());
            }
            self.saved.insert(path, loaded_dump);
            return Outcome::Ok;
        };

        // ---- crash inside (or right after) this save
        let new_ref = match reference {
            Some(r) => r.clone(),
            None => match self.clean_reference(fmt, &fname) {
                Ok(d) => d,
                Err(e) => {
                    ctx.event(&format!("{what}: no clean reference ({e}); crash point skipped"));
                    return Outcome::Ok;
                },
            },
        };
        let had_prev = self.saved.contains_key(&path);
        let temp = Path::new(&path).with_extension("tmp").to_string_lossy().into_owned();
        ctx.arm_crash(NODE, c.nth, c.bytes);
        let r = self.save(fmt, &self.live, &path);
        let fired = ctx.crash_fired();
        let after_rename = fired.is_none();
        if after_rename {
            ctx.disarm_crash();
            if r.is_err() {
                ctx.event(&format!("{what}: save returned an error before the crash point: {r:?}"));
                return Outcome::Ok;
            }
            // "either side of the rename": the process dies right after the save returned
            ctx.kill(NODE);
            ctx.probe("crash_after_rename");
            ctx.fp("crash:after-rename");
        } else if let Some(ev) = &fired {
            let f = ev.path.rsplit('/').next().unwrap_or("");
            ctx.fp(&format!("crash:{}:{}:{}", ev.kind, f, c.bytes.map(|b| b.min(21)).unwrap_or(0)));
            match (ev.kind, ev.path.ends_with(".tmp")) {
                ("open_creat" | "open_trunc", true) => ctx.probe("crash_before_temp_created"),
                ("write", true) => {
                    let kept = c.bytes.unwrap_or(0).min(ev.len);
                    let temp_len = std::fs::metadata(&temp).map(|m| m.len()).unwrap_or(0);
                    if temp_len == 0 {
                        ctx.probe("crash_with_empty_temp");
                    } else if temp_len < 20 {
                        ctx.probe("crash_mid_header");
                    } else if kept > 0 {
                        ctx.probe("crash_mid_body");
                    } else {
                        ctx.probe("crash_between_header_and_body");
                    }
                },
                ("rename", _) => ctx.probe("crash_before_rename"),
                // "every mutating syscall of the checkpoint, incl. those on the log"
                _ if f.starts_with("wal.log") => {
                    ctx.probe("crash_at_log_syscall_of_checkpoint");
                    if Path::new(&temp).exists() || !Path::new(&path).exists() {
                        ctx.probe("crash_at_log_syscall_before_checkpoint_rename");
                    }
                },
                _ => {},
            }
        }
        ctx.fault_fired("crash");
        self.crashes_fired += 1;
        // the process is gone: its objects with it
        self.rel = None;
        self.gr = None;
        self.receiver = None;
        self.last_checkpoint = None;
        self.live = Live::Router(Box::new(SlabRouter::new()));
        let power_loss = self.case.observe == 1;
        let seed_cut = c.nth.wrapping_mul(31).wrapping_add(c.bytes.unwrap_or(0) as u64);
        let (pp, tp) = (path.clone(), temp.clone());
        let cuts = ctx.crash_image(NODE, power_loss, |f, lo, hi| {
            // power loss (observation only): only the files of the interrupted save are cut
            if f == pp && !after_rename {
                return hi;
            }
            if f != pp && f != tp {
                return hi;
            }
            lo + seed_cut.wrapping_mul(0x9E37_79B9_7F4A_7C15) % (hi - lo + 1)
        });
        for (_, old, new) in &cuts {
            if new < old {
                ctx.fault_fired("power_loss_cut");
            }
        }
        let where_ = match &fired {
            Some(ev) => format!("crash at syscall #{} ({} {} len {}) keeping {:?} bytes", c.nth, ev.kind, ev.path.rsplit('/').next().unwrap_or(""), ev.len, c.bytes),
            None => "crash right after the save returned".to_string(),
        };
        ctx.event(&format!("{what}: {where_}; previous snapshot at the path: {had_prev}"));

        // "If a crash interrupts a save, loading the path yields either the complete
        // previous snapshot or the complete new one, never a mixture or an unreadable file."
        let mut verdict: Option<Violation> = None;
        let mut next_live: Option<Live> = None;
        match self.load(fmt, &path) {
            Err(e) => {
                // nothing was ever completely saved at this path and the new one did not
                // complete: there is no snapshot to yield
                let excused = !had_prev && !after_rename;
                if !excused {
                    verdict = Some(Violation {
                        class: format!("crash/{name}/unreadable"),
                        detail: format!(
                            "{what}: {where_}; a complete {} snapshot existed at the path but load failed: {e}",
                            if after_rename { "new" } else { "previous" }
                        ),
                    });
                } else {
                    ctx.probe("crash_before_first_snapshot");
                }
            },
            Ok(l) => {
                let ld = self.full_dump_of(&l);
                let is_new = maps_equiv(&new_ref, &ld, TOL);
                let is_old = had_prev && self.saved.get(&path).is_some_and(|o| maps_equiv(o, &ld, TOL));
                if is_new {
                    ctx.probe("loaded_complete_new");
                } else if is_old {
                    ctx.probe("loaded_complete_previous");
                }
                if after_rename && !is_new {
                    let d = first_diff(&new_ref, &ld, Eqv::Exact).map(|d| d.detail).unwrap_or_default();
                    verdict = Some(Violation {
                        class: format!("crash/{name}/completed-save-not-visible"),
                        detail: format!("{what}: {where_}; the save had returned Ok but load yields something else than the complete new snapshot: {d}"),
                    });
                } else if !is_new && !is_old {
                    let dn = first_diff(&new_ref, &ld, Eqv::Exact).map(|d| d.detail).unwrap_or_default();
                    let dold = self.saved.get(&path).and_then(|o| first_diff(o, &ld, Eqv::Exact)).map(|d| d.detail).unwrap_or_else(|| "<no previous snapshot>".into());
                    verdict = Some(Violation {
                        class: format!("crash/{name}/mixture"),
                        detail: format!("{what}: {where_}; loaded state is neither the complete previous nor the complete new snapshot; vs new: {dn}; vs previous: {dold}"),
                    });
                } else {
                    self.saved.insert(path.clone(), ld);
                    next_live = Some(l);
                }
            },
        }
        if let Some(v) = verdict {
            if self.observe_mode() {
                self.note_observation(&v);
            } else {
                return Outcome::Bad(v);
            }
        }
        // restart: the new process works on what it loaded (or on an empty store); a
        // log-backed store comes back log-backed, on the snapshot it loaded
        self.live = match next_live {
            Some(l) => self.restart_log_backed(Some(&path)).unwrap_or(l),
            None => {
                self.saved.remove(&path);
                match self.restart_log_backed(None) {
                    Some(l) => l,
                    None => fresh_live(ctx, self.case, &self.dir),
                }
            },
        };
        // graph-engine / blob bookkeeping stays (ids only grow; dumps probe by id)

        // "then save again over the leftover temp file and load"
        let leftover = Path::new(&temp).exists();
        if leftover {
            ctx.probe("save_over_leftover_temp");
        }
        let clean = self.clean_reference(fmt, &fname);
        let r2 = self.save(fmt, &self.live, &path);
        let mut verdict: Option<Violation> = None;
        match (r2, clean) {
            (Err(e), Ok(_)) => {
                verdict = Some(Violation {
                    class: format!("crash/{name}/resave-failed"),
                    detail: format!("{what}: {where_}; saving again to the same path (leftover temp file: {leftover}) failed: {e}"),
                });
            },
            (Ok(()), Ok(clean)) => match self.load(fmt, &path) {
                Err(e) => {
                    verdict = Some(Violation {
                        class: format!("crash/{name}/resave-unreadable"),
                        detail: format!("{what}: {where_}; snapshot saved over the leftover temp file cannot be loaded: {e}"),
                    });
                },
                Ok(l2) => {
                    let ld2 = self.full_dump_of(&l2);
                    if !maps_equiv(&clean, &ld2, TOL) {
                        let d = first_diff(&clean, &ld2, Eqv::Exact).map(|d| d.detail).unwrap_or_default();
                        verdict = Some(Violation {
                            class: format!("crash/{name}/resave-differs"),
                            detail: format!("{what}: {where_}; snapshot saved over the leftover temp file loads differently from a clean save of the same store: {d}"),
                        });
                    } else {
                        let original = self.full_dump();
                        self.check_roundtrip(&format!("{what} re-save after crash"), name, &original, &ld2, Self::eqv(fmt));
                        self.saved.insert(path.clone(), ld2);
                        if fmt == Fmt::Checkpoint {
                            self.last_checkpoint = Some(path.clone());
                        }
                    }
                },
            },
            (_, Err(e)) => {
                ctx.event(&format!("{what}: clean reference after the crash unavailable: {e}"));
            },
        }
        if let Some(v) = verdict {
            if self.observe_mode() {
                self.note_observation(&v);
            } else {
                return Outcome::Bad(v);
            }
        }
        Outcome::Ok
    }

    fn note_observation(&mut self, v: &Violation) {
        let label = if self.case.observe == 1 {
            "observation(power-loss: temp file never fsynced before rename; outside C07's quantifier)"
        } else {
            "observation(unstructured dense 384-element embeddings; tolerance not documented for them)"
        };
        let o = format!("{label}: {}", v.class);
        self.ctx.event(&format!("{o}: {}", v.detail));
        if !self.observations.contains(&o) {
            self.observations.push(o);
        }
    }

    /// Run the program. `crashes`: at most one per Save ordinal. `refs`: dry-run
    /// records (clean references by step). `record`: collect dry-run records.
    fn run(&mut self, crashes: &[CrashSpec], refs: Option<&[SaveRec]>, mut record: Option<&mut Vec<SaveRec>>) -> Outcome {
        let steps = self.case.steps.clone();
        let mut save_ord = 0usize;
        let mut deviated = false;
        for (i, step) in steps.iter().enumerate() {
            // Every step starts at a fixed simulated instant: timestamps written by the
            // engines (created_at) are then the same in the dry run and in every crash
            // trial of one run, whatever number of clock reads the checks in between made.
            {
                let mut g = self.ctx.lock();
                g.wall_ns = crate::ctx::WALL_START_NS + (i as u64 + 1) * 1_000_000_000;
                g.mono_ns = crate::ctx::MONO_START_NS + (i as u64 + 1) * 1_000_000_000;
            }
            match step {
                Step::Save { fmt, p } => {
                    let fmt = if self.case.cfg == 1 && fmt.is_quant() { Fmt::Default } else { *fmt };
                    let crash = crashes.iter().find(|c| c.save == save_ord);
                    let reference =
                        if deviated { None } else { refs.and_then(|r| r.iter().find(|x| x.step == i)).and_then(|x| x.reference.as_ref()) };
                    // a step the dry run could not save (error) has no reference and is not a crash target
                    let out = self.exec_save(i, fmt, *p, crash, reference, record.as_deref_mut());
                    if crash.is_some() {
                        deviated = true;
                    }
                    save_ord += 1;
                    if let Outcome::Bad(v) = out {
                        return Outcome::Bad(v);
                    }
                },
                Step::Bytes { .. } => {
                    // evaluated where the result is not already known from the dry run: after a
                    // crash the program continues on one of two states (previous or new
                    // snapshot), whatever the byte offset of the crash inside a write was, so
                    // of an enumeration's trials those at syscall boundaries evaluate it
                    if refs.is_none() || (deviated && crashes.iter().all(|c| c.bytes.is_none())) {
                        self.exec_bytes(i, step);
                    }
                },
                other => self.exec_fill(other),
            }
        }
        Outcome::Ok
    }

    /// The violation this trial reports if no crash-clause violation ended it.
    fn pending_verdict(&mut self) -> Option<Violation> {
        if self.pending.is_empty() {
            return None;
        }
        if self.observe_mode() {
            let ps: Vec<Violation> = self.pending.drain(..).collect();
            for v in ps {
                self.note_observation(&v);
            }
            return None;
        }
        let pick = self.pending.iter().position(|v| !TRIAGED.contains(&v.class.as_str())).unwrap_or(0);
        Some(self.pending[pick].clone())
    }
}

fn sample_offsets(len: usize, want: usize) -> Vec<usize> {
    if len <= want.max(1) * 2 {
        return (1..len).collect();
    }
    // the first bytes (magic/header), then a stride, then the last byte
    let head = want.min(6);
    let mut v: Vec<usize> = (1..=head).collect();
    let rest = want.saturating_sub(head).max(1);
    let step = ((len - head) / (rest + 1)).max(1);
    let mut x = head + step;
    while x < len && v.len() < want + 2 {
        v.push(x);
        x += step;
    }
    v.push(len - 1);
    v.sort_unstable();
    v.dedup();
    v
}

/// One fill step; `r` in 0..79 selects the kind.
fn gen_fill(rng: &mut Rng, r: u64, cfg: u8, nkeys: u64, nu: &mut dyn FnMut() -> u32) -> Step {
    let nclass = KEY_CLASSES.len() as u64;
    let t = rng.below(3) as u8;
    let engine = cfg == 0 && rng.chance(1, 3);
    match r {
        0..=20 => Step::Put { class: rng.below(nclass) as u8, idx: rng.below(nkeys) as u16, kind: rng.below(22) as u8, u: nu() },
        21..=24 => Step::PutMany { class: rng.below(nclass) as u8, start: rng.below(4) as u16 * 10, n: rng.range(2, 30) as u16, u: nu() },
        25..=29 => Step::Del { class: rng.below(nclass) as u8, idx: rng.below(nkeys) as u16 },
        30..=35 => Step::Table { t, engine },
        36..=43 => Step::Rows { t, engine, n: rng.range(1, 12) as u16, u: nu() },
        44..=46 => Step::RowDel { t, engine, row: rng.below(8) as u16 },
        47..=49 => Step::RowUpd { t, row: rng.below(8) as u16, u: nu() },
        50..=51 => Step::Index { t, engine },
        52..=59 => Step::Emb { idx: rng.below(nkeys) as u16, shape: rng.below(8) as u8, u: nu() },
        60..=62 => Step::GNode { u: nu() },
        63..=64 => Step::GEdge { a: rng.below(6) as u8, b: rng.below(6) as u8, u: nu() },
        65..=71 => Step::TEdge {
            from: rng.below(8) as u8,
            to: rng.below(8) as u8,
            ty: rng.below(EDGE_TYPES.len() as u64) as u8,
            directed: rng.chance(2, 3),
            u: nu(),
        },
        72..=74 => Step::TEdgeDel { e: rng.below(8) as u8 },
        _ if rng.chance(1, 4) => Step::BlobDrop { pick: rng.below(8) as u8 },
        _ => Step::Blob { len: if rng.chance(1, 4) { rng.range(200, 700) as u16 } else { rng.below(40) as u16 }, u: nu() },
    }
}

/// A bytes-form step placed after `before`. The receiving store of a
/// `StoreOver` restore gets a fill program of its own, drawn like the source's:
/// a few steps of any kind, and - so that what is restored lands on used
/// ground - more steps on every slab the source program has used so far
/// (with other values, row sets, edge types and orders, deletions).
fn gen_bytes(rng: &mut Rng, before: &[Step], nkeys: u64, nu: &mut dyn FnMut() -> u32) -> Step {
    let form = match rng.below(4) {
        0 => BytesForm::Router,
        1 => BytesForm::StoreFresh,
        _ => BytesForm::StoreOver,
    };
    if form != BytesForm::StoreOver {
        return Step::Bytes { form, target: Vec::new(), tcfg: 0, reuse: false };
    }
    let mut target: Vec<Step> = Vec::new();
    for _ in 0..rng.range(0, 5) {
        let r = rng.below(79);
        target.push(gen_fill(rng, r, 0, nkeys, nu));
    }
    // slab kinds of the source: (first r, last r) of the fill kinds that touch them
    let used: [(bool, &[u64]); 6] = [
        (before.iter().any(|s| matches!(s, Step::TEdge { .. })), &[65, 66, 67, 72]),
        (before.iter().any(|s| matches!(s, Step::Table { .. } | Step::Rows { .. })), &[30, 36, 37, 44, 47, 50]),
        (before.iter().any(|s| matches!(s, Step::Emb { .. })), &[52, 53, 25]),
        (before.iter().any(|s| matches!(s, Step::Blob { .. })), &[75, 76]),
        (before.iter().any(|s| matches!(s, Step::GNode { .. })), &[60, 61, 63]),
        (before.iter().any(|s| matches!(s, Step::Put { .. } | Step::PutMany { .. })), &[0, 1, 21, 25]),
    ];
    for (on, kinds) in used {
        if on && rng.chance(3, 4) {
            let n = rng.range(1, kinds.len() as u64) as usize;
            for r in &kinds[..n] {
                let mut st = gen_fill(rng, *r, 0, nkeys, nu);
                // deletions of the receiving program aim at the embedding keys when the source has embeddings
                if let (Step::Del { class, .. }, 52) = (&mut st, kinds[0]) {
                    *class = 1;
                }
                target.push(st);
            }
        }
    }
    Step::Bytes { form, target, tcfg: u8::from(rng.chance(1, 6)), reuse: rng.chance(1, 3) }
}

impl Scenario for C07 {
    type Case = Case;
    fn id(&self) -> &'static str {
        "C07"
    }
    fn level(&self) -> &'static str {
        "fault_enumeration"
    }
    fn runs(&self, tier: Tier) -> u64 {
        match tier {
            Tier::Quick => 300,
            Tier::Thorough => 8000,
        }
    }

    fn generate(&self, rng: &mut Rng, _tier: Tier, index: u64) -> Case {
        let observe = match rng.below(16) {
            0 => 1,
            1 => 2,
            _ => 0,
        };
        let cfg = u8::from(rng.chance(1, 7));
        // size class: 0 small, 1 medium (hundreds), 2 large (thousands)
        let size = match rng.below(20) {
            0 => 2,
            1..=4 => 1,
            _ => 0,
        };
        let mut u = (index as u32) << 12;
        let mut nu = || {
            u += 1;
            u
        };
        let mut steps: Vec<Step> = Vec::new();
        let nclass = KEY_CLASSES.len() as u64;
        if rng.chance(1, 60) {
            // the large end of the quantifier: tens of thousands of entries, very regular
            // content (round trips only, no crash points)
            let n = rng.range(16_000, 30_000) as u16;
            steps.push(Step::PutSame { class: *rng.pick(&[0u8, 6]), start: 200, n, kind: *rng.pick(&[14u8, 14, 6, 18]), u: nu() });
            steps.push(Step::PutMany { class: 1, start: 0, n: rng.range(2, 30) as u16, u: nu() });
            steps.push(Step::Save { fmt: if rng.chance(3, 4) { Fmt::Default } else { Fmt::Uncompressed }, p: 0 });
            steps.push(Step::Put { class: 0, idx: 0, kind: rng.below(10) as u8, u: nu() });
            steps.push(Step::Save { fmt: Fmt::Default, p: 0 });
            return Case { cfg: 0, observe: 0, offsets: 2, steps, mode: Mode::Chain(Vec::new()), bloom_loader: false, wal: 0 };
        }
        if size > 0 {
            let (lo, hi) = if size == 1 { (150, 500) } else { (1500, 3500) };
            steps.push(Step::PutMany { class: rng.below(nclass) as u8, start: 100, n: rng.range(lo, hi) as u16, u: nu() });
            if cfg == 0 || rng.chance(1, 2) {
                steps.push(Step::Table { t: 0, engine: false });
                steps.push(Step::Rows { t: 0, engine: false, n: rng.range(lo / 2, hi / 2) as u16, u: nu() });
            }
            steps.push(Step::Save { fmt: Fmt::Default, p: 0 });
        }
        let n_steps = rng.range(4, if size == 0 { 16 } else { 8 }) as usize;
        let nkeys = rng.range(1, 6);
        // swarm: most programs concentrate half of their fill steps on one slab
        // (create, overwrite, delete, create again on the same few keys / rows / edges)
        let focus: &[u64] = match rng.below(7) {
            0 | 1 => &[52, 53, 54, 25, 52],   // embeddings (entity index + slab), deletions of emb: keys
            2 => &[30, 36, 37, 44, 47, 50],   // relational slab
            3 => &[65, 66, 67, 72],           // graph tensor
            4 => &[75, 76, 25],               // blob log
            5 => &[60, 61, 63, 25],           // graph records
            _ => &[],
        };
        let emb_focus = focus.first() == Some(&52);
        for _ in 0..n_steps {
            let r = rng.below(100);
            let s = match r {
                0..=78 if !focus.is_empty() && rng.chance(1, 2) => {
                    let fr = *rng.pick(focus);
                    let mut st = gen_fill(rng, fr, cfg, nkeys, &mut nu);
                    if let (true, Step::Del { class, .. }) = (emb_focus, &mut st) {
                        *class = 1; // KEY_CLASSES[1] = "emb:"
                    }
                    st
                },
                0..=78 => gen_fill(rng, r, cfg, nkeys, &mut nu),
                79..=92 => {
                    let fmt = match rng.below(8) {
                        0..=3 => Fmt::Default,
                        4..=5 => Fmt::Uncompressed,
                        6 => Fmt::Quant { q: 0 },
                        _ => Fmt::Quant { q: 1 },
                    };
                    Step::Save { fmt, p: rng.below(2) as u8 }
                },
                _ => gen_bytes(rng, &steps, nkeys, &mut nu),
            };
            steps.push(s);
        }
        if cfg == 0 {
            // every store-level program has at least one bytes-form round trip, somewhere
            // in its second half
            let at = rng.range((steps.len() / 2) as u64, steps.len() as u64) as usize;
            let b = gen_bytes(rng, &steps[..at], nkeys, &mut nu);
            steps.insert(at, b);
        }
        // every program ends by saving over something it saved before: the path of one
        // of its earlier saves (so that a complete previous snapshot exists there), in
        // the same format family
        let earlier: Vec<(Fmt, u8)> = steps.iter().filter_map(|s| if let Step::Save { fmt, p } = s { Some((*fmt, *p)) } else { None }).collect();
        if earlier.is_empty() {
            let f0 = if rng.chance(2, 3) { Fmt::Default } else { Fmt::Uncompressed };
            let at = rng.usize_below(steps.len() + 1);
            steps.insert(at, Step::Save { fmt: f0, p: 0 });
            steps.push(Step::Save { fmt: if rng.chance(1, 2) { Fmt::Default } else { Fmt::Uncompressed }, p: 0 });
        } else {
            let (f, p) = *rng.pick(&earlier);
            let last_fmt = match f {
                Fmt::Quant { .. } => if rng.chance(1, 2) { Fmt::Quant { q: 0 } } else { f },
                _ => if rng.chance(2, 3) { Fmt::Default } else { Fmt::Uncompressed },
            };
            steps.push(Step::Put { class: 0, idx: 0, kind: rng.below(10) as u8, u: nu() });
            steps.push(Step::Save { fmt: last_fmt, p });
        }
        let n_saves = steps.iter().filter(|s| matches!(s, Step::Save { .. })).count();
        let mode = if rng.chance(4, 5) {
            Mode::Enumerate
        } else {
            let n = rng.range(1, 2) as usize;
            let mut specs: Vec<CrashSpec> = Vec::new();
            for _ in 0..n {
                let save = rng.usize_below(n_saves);
                if specs.iter().any(|s| s.save == save) {
                    continue;
                }
                specs.push(CrashSpec { save, nth: rng.below(5), bytes: if rng.chance(2, 3) { Some(rng.below(200) as usize) } else { None } });
            }
            Mode::Chain(specs)
        };
        let offsets = match size {
            0 => 20,
            1 => 8,
            _ => 4,
        };
        let bloom_loader = cfg == 0 && rng.chance(1, 5);
        // the store under test is log-backed in two of five programs; some of its
        // key-addressed puts/deletes then go through the logged calls. `checkpoint`
        // takes the place of some default-family file saves (more often on a
        // log-backed store; on a store without a log it is a plain save)
        let wal = if rng.chance(2, 5) { 1 + rng.below(3) as u8 } else { 0 };
        let (cn, cd) = if wal != 0 { (3, 5) } else { (1, 8) };
        for s in &mut steps {
            match s {
                Step::Put { class, idx, kind, u } if wal != 0 && rng.chance(1, 3) => {
                    *s = Step::PutD { class: *class, idx: *idx, kind: *kind, u: *u };
                },
                Step::Del { class, idx } if wal != 0 && rng.chance(1, 3) => {
                    *s = Step::DelD { class: *class, idx: *idx };
                },
                Step::Save { fmt, .. } if !fmt.is_quant() && rng.chance(cn, cd) => *fmt = Fmt::Checkpoint,
                _ => {},
            }
        }
        if wal != 0 && rng.chance(1, 3) {
            let at = rng.usize_below(steps.len() + 1);
            steps.insert(at, Step::Sync);
        }
        Case { cfg, observe, offsets, steps, mode, bloom_loader, wal }
    }

    fn run(&self, case: &Case, ctx: &Arc<RunCtx>) -> RunOut {
        let mut out = RunOut::default();
        ctx.fp(&format!("cfg{}:obs{}:{}:wal{}", case.cfg, case.observe, matches!(case.mode, Mode::Enumerate), case.wal));
        for s in &case.steps {
            ctx.fp(match s {
                Step::Save { fmt, .. } => fmt.name(),
                Step::Bytes { form, target, tcfg, reuse } => {
                    if *form == BytesForm::StoreOver {
                        let kinds: Vec<&str> = target
                            .iter()
                            .map(|t| match t {
                                Step::Table { .. } | Step::Rows { .. } | Step::RowDel { .. } | Step::RowUpd { .. } | Step::Index { .. } => "rel",
                                Step::Emb { .. } => "emb",
                                Step::TEdge { .. } | Step::TEdgeDel { .. } => "tedge",
                                Step::Blob { .. } | Step::BlobDrop { .. } => "blob",
                                Step::GNode { .. } | Step::GEdge { .. } => "gr",
                                _ => "fill",
                            })
                            .collect();
                        ctx.fp(&format!("receiver:{tcfg}:{reuse}:{kinds:?}"));
                    }
                    form.name()
                },
                Step::Table { .. } | Step::Rows { .. } => "rel",
                Step::Emb { .. } => "emb",
                Step::TEdge { .. } => "tedge",
                Step::Blob { .. } => "blob",
                Step::BlobDrop { .. } => "blob-drop",
                Step::PutD { .. } | Step::DelD { .. } => "logged",
                Step::Sync => "sync",
                _ => "fill",
            });
        }
        let merge_obs = |out: &mut RunOut, t: &mut Trial| {
            for o in t.observations.drain(..) {
                if !out.observations.contains(&o) {
                    out.observations.push(o);
                }
            }
        };
        match &case.mode {
            Mode::Chain(specs) => {
                let mut t = Trial::new(ctx, case, 0);
                let r = t.run(specs, None, None);
                out.inner_evals = 1;
                out.nontrivial = t.crashes_fired > 0 || t.verified_pairs > 0;
                match r {
                    Outcome::Bad(v) => out.violation = Some(v),
                    Outcome::Ok => out.violation = t.pending_verdict(),
                }
                merge_obs(&mut out, &mut t);
                t.cleanup();
            },
            Mode::Enumerate => {
                // dry run: no crash; every save is loaded back and compared
                // (round-trip clause), its syscalls and its clean-load reference recorded
                let mut recs: Vec<SaveRec> = Vec::new();
                let mut t0 = Trial::new(ctx, case, 0);
                let r = t0.run(&[], None, Some(&mut recs));
                out.inner_evals = 1;
                out.nontrivial = t0.verified_pairs > 0;
                let dry_pending = match r {
                    Outcome::Bad(v) => {
                        out.violation = Some(v);
                        merge_obs(&mut out, &mut t0);
                        return out;
                    },
                    Outcome::Ok => t0.pending_verdict(),
                };
                merge_obs(&mut out, &mut t0);
                t0.cleanup();
                let mut tag = 1u64;
                for (ord, rec) in recs.iter().enumerate() {
                    if rec.reference.is_none() {
                        continue;
                    }
                    // crash points: every syscall boundary, sampled offsets inside every
                    // write, and "after the rename" (nth == number of syscalls)
                    let mut points: Vec<(u64, Option<usize>)> = Vec::new();
                    for (k, ev) in rec.sys.iter().enumerate() {
                        points.push((k as u64, None));
                        if ev.kind == "write" {
                            // "every truncation point of the temporary file"; a write to the log
                            // of a checkpointing store is cut at a few offsets only
                            let want = if ev.path.ends_with(".tmp") { case.offsets as usize } else { (case.offsets as usize).min(3) };
                            for b in sample_offsets(ev.len, want) {
                                points.push((k as u64, Some(b)));
                            }
                        }
                    }
                    points.push((rec.sys.len() as u64, None));
                    for (nth, bytes) in points {
                        let spec = CrashSpec { save: ord, nth, bytes };
                        let mut t = Trial::new(ctx, case, tag);
                        tag += 1;
                        let r = t.run(std::slice::from_ref(&spec), Some(&recs), None);
                        out.inner_evals += 1;
                        merge_obs(&mut out, &mut t);
                        let v = match r {
                            Outcome::Bad(v) => Some(v),
                            // round-trip violations seen only after a crash (state the dry run never had)
                            Outcome::Ok => t.pending_verdict().filter(|v| dry_pending.as_ref().map(|d| d.class != v.class).unwrap_or(true)),
                        };
                        t.cleanup();
                        if let Some(mut v) = v {
                            if v.class.starts_with("crash/") || !TRIAGED.contains(&v.class.as_str()) || dry_pending.is_none() {
                                v.detail = format!("{} [crash spec {:?}]", v.detail, spec);
                                out.violation = Some(v);
                                out.nontrivial = true;
                                let mut reduced = case.clone();
                                reduced.mode = Mode::Chain(vec![spec]);
                                out.reduced = serde_json::to_value(&reduced).ok();
                                return out;
                            }
                        }
                    }
                }
                if out.violation.is_none() {
                    if let Some(v) = dry_pending {
                        out.violation = Some(v);
                        let mut reduced = case.clone();
                        reduced.mode = Mode::Chain(Vec::new());
                        out.reduced = serde_json::to_value(&reduced).ok();
                    }
                }
            },
        }
        out
    }

    fn shrink(&self, case: &Case) -> Vec<Case> {
        let mut v = Vec::new();
        for steps in drop_chunks(&case.steps) {
            let mut c = case.clone();
            c.steps = steps;
            v.push(c);
        }
        if case.wal != 0 {
            let mut c = case.clone();
            c.wal = 0;
            v.push(c);
            if case.wal != 1 {
                let mut c = case.clone();
                c.wal = 1;
                v.push(c);
            }
        }
        if let Mode::Chain(specs) = &case.mode {
            for s in drop_chunks(specs) {
                let mut c = case.clone();
                c.mode = Mode::Chain(s);
                v.push(c);
            }
            for (i, s) in specs.iter().enumerate() {
                if s.save > 0 {
                    let mut c = case.clone();
                    if let Mode::Chain(ss) = &mut c.mode {
                        ss[i].save -= 1;
                    }
                    v.push(c);
                }
                if s.nth > 0 {
                    let mut c = case.clone();
                    if let Mode::Chain(ss) = &mut c.mode {
                        ss[i].nth -= 1;
                    }
                    v.push(c);
                }
                if let Some(b) = s.bytes {
                    let mut c = case.clone();
                    if let Mode::Chain(ss) = &mut c.mode {
                        ss[i].bytes = if b > 1 { Some(b / 2) } else { None };
                    }
                    v.push(c);
                }
            }
        }
        for (i, s) in case.steps.iter().enumerate() {
            let simpler = match s {
                Step::PutMany { class, start, n, u } if *n > 1 => Some(Step::PutMany { class: *class, start: *start, n: n / 2, u: *u }),
                Step::Rows { t, engine, n, u } if *n > 1 => Some(Step::Rows { t: *t, engine: *engine, n: n / 2, u: *u }),
                Step::Put { class, idx, kind, u } if *kind != 2 => Some(Step::Put { class: *class, idx: *idx, kind: 2, u: *u }),
                Step::Blob { len, u } if *len > 0 => Some(Step::Blob { len: 0, u: *u }),
                Step::PutD { class, idx, kind, u } => Some(Step::Put { class: *class, idx: *idx, kind: *kind, u: *u }),
                Step::DelD { class, idx } => Some(Step::Del { class: *class, idx: *idx }),
                Step::Save { fmt: Fmt::Checkpoint, p } => Some(Step::Save { fmt: Fmt::Default, p: *p }),
                Step::Bytes { form, target, tcfg, reuse } if *reuse || *tcfg != 0 => {
                    Some(Step::Bytes { form: *form, target: target.clone(), tcfg: if *reuse { *tcfg } else { 0 }, reuse: false })
                },
                _ => None,
            };
            // the fill program of a receiving store shrinks like the main one
            if let Step::Bytes { form, target, tcfg, reuse } = s {
                for t in drop_chunks(target) {
                    let mut c = case.clone();
                    c.steps[i] = Step::Bytes { form: *form, target: t, tcfg: *tcfg, reuse: *reuse };
                    v.push(c);
                }
            }
            if let Some(s2) = simpler {
                let mut c = case.clone();
                c.steps[i] = s2;
                v.push(c);
            }
        }
        v
    }

    fn required_probes(&self) -> Vec<&'static str> {
        vec![
            "crash_with_empty_temp",
            "crash_mid_header",
            "crash_mid_body",
            "crash_before_rename",
            "crash_after_rename",
            "save_over_leftover_temp",
            "relational_rows_in_snapshot",
            "vector_above_threshold",
            "loaded_complete_previous",
            "loaded_complete_new",
            "restore_over_graph_edges",
            "restore_over_other_edge_type_order",
            "restore_over_unmerged_deleted_edges",
            "restore_over_relational_tables",
            "restore_over_blob_chunks",
            "restore_over_deleted_entities",
            "checkpoint_of_log_backed_store",
            "checkpoint_with_logged_changes",
            "checkpoint_again_with_empty_log_after_unlogged_changes",
            "crash_at_log_syscall_of_checkpoint",
            "crash_at_log_syscall_before_checkpoint_rename",
            "restart_log_backed_from_snapshot",
        ]
    }

    fn rule(&self) -> String {
        "A case is a generated program of fill steps (key-addressed puts/deletes over 20 value kinds and 11 key classes, bulk puts up to 3500 keys, relational slab tables/rows/updates/deletes/indexes through the slab API and through RelationalEngine, full-dimension embeddings on emb: keys, GraphEngine nodes/edges, GraphTensor slab edges with edge data, blob-log chunks), Save{zstd | uncompressed | quantising(default|tensor-train)} steps to two v3 paths and one quantising path, and bytes-form round trips (SlabRouter::to_bytes/from_bytes, snapshot_bytes/restore_from_bytes into a new store and into a used store: the receiving store runs a generated fill program of its own first - any fill step kind, plus more steps on every slab the source has used: other tables/rows, graph-tensor edges of other types in other orders and deleted edges, blob chunks, embeddings and deleted entities - is built with or without a Bloom filter, and may be the store that received an earlier restore of the same program; every store-level program has at least one bytes-form step); the graph-tensor dump names, per edge id, endpoints, direction flag and type name; one in seven cases uses a bare SlabRouter with embedding_dim 8. In two of five cases the store under test is log-backed (TensorStore::open_durable / SlabRouter::with_wal_and_config on the simulated disk, sync mode immediate | batched(3) | manual): a third of its key-addressed puts/deletes go through put_durable/delete_durable, the rest of the fill (plain put/delete, cache keys, slab rows, graph-tensor edges, blob chunks) is not logged, an occasional wal_sync step; checkpoint(path) is a further save form (default file format) that replaces three of five default-family file saves of a log-backed store and one of eight of a store without a log, judged by the same round-trip clause (load_snapshot(path) equals the live store at the moment checkpoint returned) and the same crash clause, where every mutating syscall of the checkpoint including those on the log (sync before, marker append, truncation after the rename) is a crash point and the snapshot path must hold the complete previous or the complete new snapshot; the process restarted after a crash of a log-backed store gets the loaded snapshot under a new empty log (the old log is not replayed: recovery is C02's subject). Enumerate mode: a dry run loads every saved snapshot back and compares it with the live store (round-trip clause), then every mutating syscall boundary of every save (temp-file create/truncate, header write, body write, rename, and the point right after the rename) and sampled byte offsets inside every write are each taken as a process-crash point (inner_enumerated_points counts these executions), each followed by load, comparison with the complete previous and complete new snapshot, a second save over the leftover temp file, load, and the rest of the program on the loaded store. Chain mode: 1-2 seeded crashes in one execution. Non-trivial: at least one save/load pair was compared or a crash fired. Distinct: hash of (configuration, step-kind sequence, crash sites).".into()
    }

    fn components(&self) -> Value {
        json!({
            "real": [
                "tensor_store::TensorStore (save_snapshot, load_snapshot, save_snapshot_compressed, load_snapshot_compressed, snapshot_bytes, restore_from_bytes, open_durable, put_durable, delete_durable, wal_sync, checkpoint; recover only to reopen a snapshot under a new empty log)", "TensorWal (append, fsync, truncate) as driven by checkpoint",
                "tensor_store::snapshot (save_v3, save_v3_uncompressed, load)", "SlabRouter (snapshot/restore, to_bytes/from_bytes, save_to_file/load_from_file) and all slabs",
                "relational_engine::RelationalEngine (create_table, insert, delete_rows, create_index, select, get_schema)", "graph_engine::GraphEngine (create_node, create_edge, get_node, get_edge)",
                "tensor_compress (tensor-train, quantising snapshot format)", "std::fs"
            ],
            "simulated": ["disk: libc open/write/rename/fsync interposed, files on tmpfs; process crash at a chosen syscall/byte (all bytes handed to write survive)", "clock, getrandom (HashMap order)"],
            "stub": ["vector_engine is not linked: embeddings are written as emb: keys with an _embedding field, which is what it does"]
        })
    }

    fn assumptions(&self) -> Vec<String> {
        vec![
            "process-crash model: every byte handed to write() survives, rename is atomic; power loss (temp file never fsynced) runs only as a labelled observation".into(),
            format!("vectors of >= 256 elements stored through the embedding slab or a lossy quantising mode are accepted within {TOL} relative L2 error; generated embeddings are structured (low tensor rank or sparse); unstructured dense ones run only as a labelled observation"),
            "_cache: keys are not compared (documented transient)".into(),
            "the log of a log-backed store is not judged: after a crash the old log file is removed unread and the store is reopened from the snapshot path under a new empty log (durability and replay of the log are C02's subject)".into(),
            "the crash clause compares a post-crash load with what an uninterrupted save of the same state yields when loaded, so that a format's own round-trip losses are reported once, by the round-trip clause".into(),
            "in the quantising format a sparse vector that comes back as the dense vector of the same payload counts as an equal vector payload".into(),
        ]
    }

    fn watchdog_secs(&self) -> u64 {
        300
    }
}
