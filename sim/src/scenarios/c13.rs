//! C13 — 2PC coordinator restart preserves every logged decision.
//!
//! Real `DistributedTxCoordinator::new(..).with_wal(TxWal::open(..))` on the
//! simulated disk. Participants are scripted: votes come from the step list
//! (a first YES vote takes its lock through the real `handle_prepare`).
//! A program of begin / vote (yes, no, resend, flipped duplicate, late) /
//! commit / abort / clock advance / timeout sweep / abort broadcast /
//! pending-decision completion / clean restart is run; in Enumerate mode every
//! mutating syscall boundary of the whole program and (sampled) byte offsets
//! of every log write are each taken as a power-loss crash point. A restart is:
//! drop the coordinator, cut the log (power-loss model), reopen `TxWal`, build
//! a new coordinator, real `recover_from_wal` (optionally `recover`). Every
//! program is followed by an epilogue: restart, drive every recovered
//! transaction to completion, restart, sweep after every timeout, a new
//! transaction on the same keys, restart.
//!
//! Oracle = ledger of completions that were logged before a restart
//! (`commit`/`abort` returned `Ok` while the node was alive, or — for the call
//! cut by the crash — the `TxComplete` record lies wholly in the surviving
//! log), checked against the property text (see `check_after_restart`).

use crate::ctx::{RunCtx, SysEvent};
use crate::driver::{drop_chunks, RunOut, Scenario, Tier, Violation};
use crate::net::{new_net, now_or_never, Net, SimTransport};
use crate::rng::Rng;
use serde::{Deserialize, Serialize};
use serde_json::{json, Value};
use std::collections::BTreeMap;
use std::sync::{Arc, Once, RwLock};
use tensor_chain::network::Message;
use tensor_chain::{
    lock_handle_current, ConsensusConfig, ConsensusManager, DeltaVector, DistributedTxConfig, DistributedTxCoordinator,
    LockManager, PrepareRequest, PrepareVote, Transaction, TxOutcome, TxPhase, TxRecoveryState, TxWal, TxWalEntry, VoteRecordError,
};
use tensor_store::SparseVector;

#[derive(Serialize, Deserialize, Clone, Copy, Debug, PartialEq)]
pub enum V {
    /// YES (the first vote of a shard on a transaction that is collecting
    /// votes takes the shard's key lock through `handle_prepare`, which may
    /// answer Conflict instead)
    Yes,
    No,
    /// the same vote message again (network duplicate); first vote if none yet
    Resend,
    /// a second, different answer of a shard that already voted; NO if none yet
    Flip,
}

#[derive(Serialize, Deserialize, Clone, Debug, PartialEq)]
pub enum Step {
    /// begin a transaction in slot `t` with `n` participants; shard s works on key (kb+s)%6
    Begin { t: u8, n: u8, kb: u8 },
    Vote { t: u8, s: u8, v: V },
    Commit { t: u8 },
    Abort { t: u8 },
    Advance { ms: u32 },
    /// `cleanup_timeouts`
    Sweep,
    /// `process_pending_aborts` over the simulated transport
    Aborts,
    /// `get_pending_decisions`, then `complete_commit` / `complete_abort` for each
    Decide,
    /// drive every pending transaction to completion: Prepared -> `commit` (even
    /// slot) or `abort` (odd slot), Committing -> `complete_commit`, Aborting -> `complete_abort`
    DriveAll,
    /// `recover` (the in-memory recovery pass)
    Recover,
    /// clean restart: drop, reopen, `recover_from_wal`
    Restart,
}

#[derive(Serialize, Deserialize, Clone, Debug, PartialEq)]
pub struct CrashSpec {
    /// crash at the nth mutating syscall counted from the (re)start of the incarnation
    pub nth: u64,
    /// bytes of that syscall kept if it is a write (None: none)
    pub bytes: Option<usize>,
    /// power-loss cut of non-durable log bytes: 0 = keep all written,
    /// 1 = keep only what was fsynced, n>=2 = pseudo-random choice from n
    pub cut: u64,
}

#[derive(Serialize, Deserialize, Clone, Debug, PartialEq)]
pub enum Mode {
    Enumerate,
    Chain(Vec<CrashSpec>),
}

#[derive(Serialize, Deserialize, Clone, Debug)]
pub struct Case {
    pub steps: Vec<Step>,
    /// call `recover()` right after every `recover_from_wal()`
    pub recover_after_restart: bool,
    pub mode: Mode,
}

pub struct C13;

const NODE: &str = "n0";
/// slot used by the epilogue's new transaction
const EPILOGUE_SLOT: u8 = 200;

// ---- process-wide determinism helpers -------------------------------------------------
//
// Two process-global counters inside /repo leak into a run:
//  * `LOCK_COUNTER` (lock handles). Handles are logged and bitcode packs integers by
//    magnitude, so the record length would depend on how many locks other runs of this
//    process took before. The counter is advanced once past 2^16: from then on (and below
//    2^32) every handle encodes in 4 bytes.
//  * `generate_tx_id` (LAST_TIMESTAMP / OVERFLOW_COUNTER): two runs on different worker
//    threads that create an id in the same simulated millisecond influence each other's
//    "overflow" bits. `begin` (whose id is kept) excludes every other call that creates
//    an id (write lock); `recover_from_wal` (whose generated ids are overwritten by the
//    logged ones) only excludes `begin` (read lock, and only when the log holds
//    transactions to restore). `begin` is preceded by an id drawn 7 ms in the future,
//    which makes the overflow bits of the following id 0 whatever other runs did before.
static ID_LOCK: RwLock<()> = RwLock::new(());
static INIT: Once = Once::new();

fn init_process() {
    INIT.call_once(|| {
        // on a thread without simulation context: real clock, no effect on the run
        let _ = std::thread::spawn(|| {
            let lm = LockManager::new();
            while lock_handle_current() < 70_000 {
                let _ = lm.try_lock(0, &[]);
            }
        })
        .join();
    });
}

fn id_exclusive() -> std::sync::RwLockWriteGuard<'static, ()> {
    match ID_LOCK.write() {
        Ok(g) => g,
        Err(p) => p.into_inner(),
    }
}

fn id_shared() -> std::sync::RwLockReadGuard<'static, ()> {
    match ID_LOCK.read() {
        Ok(g) => g,
        Err(p) => p.into_inner(),
    }
}

// ---- ledger ---------------------------------------------------------------------------

#[derive(Clone, Debug)]
struct TxRec {
    id: u64,
    parts: Vec<usize>,
    kb: u8,
    /// votes the live coordinator accepted: shard -> (yes, lock handle)
    votes: BTreeMap<usize, (bool, u64)>,
    /// last accepted vote message per shard (for Resend / Flip)
    last_vote: BTreeMap<usize, PrepareVote>,
    /// the PhaseChange -> Prepared record is known to be in the log
    prepared_logged: bool,
    /// (committed?, incarnation in which the TxComplete record was logged)
    outcome: Option<(bool, usize)>,
    /// completed or swept in memory without a log record (complete_commit,
    /// complete_abort, cleanup_timeouts): coming back after a restart and not
    /// coming back are both accepted from then on
    volatile: bool,
    /// an abort of a transaction that was still collecting votes was cut by a
    /// crash after its PhaseChange -> Aborting record: no expectation
    loose: bool,
    /// was collecting votes at a restart: must stay absent
    forgotten: bool,
    abort_sent: bool,
}

fn phase_name(p: TxPhase) -> &'static str {
    match p {
        TxPhase::Preparing => "Preparing",
        TxPhase::Prepared => "Prepared",
        TxPhase::Committing => "Committing",
        TxPhase::Committed => "Committed",
        TxPhase::Aborting => "Aborting",
        TxPhase::Aborted => "Aborted",
        _ => "?",
    }
}

fn vote_yes_handle(v: &PrepareVote) -> (bool, u64) {
    match v {
        PrepareVote::Yes { lock_handle, .. } => (true, *lock_handle),
        _ => (false, 0),
    }
}

/// number of complete `[len u32][crc u32][payload]` frames at the start of
/// `raw` and the offset where they end
fn frames(raw: &[u8]) -> (usize, usize) {
    let mut pos = 0usize;
    let mut n = 0usize;
    while pos + 8 <= raw.len() {
        let l = u32::from_le_bytes([raw[pos], raw[pos + 1], raw[pos + 2], raw[pos + 3]]) as usize;
        if l > (1 << 24) || pos + 8 + l > raw.len() {
            break;
        }
        pos += 8 + l;
        n += 1;
    }
    (n, pos)
}

fn cut_choice(cut: u64, lo: u64, hi: u64) -> u64 {
    match cut {
        0 => hi,
        1 => lo,
        n => lo + (n.wrapping_mul(0x9E37_79B9_7F4A_7C15) >> 33) % (hi - lo + 1),
    }
}

fn viol(class: &str, detail: String) -> Violation {
    Violation { class: class.to_string(), detail }
}

struct Trial<'a> {
    ctx: &'a Arc<RunCtx>,
    case: &'a Case,
    dir: String,
    wal: String,
    recs: BTreeMap<u8, TxRec>,
    by_id: BTreeMap<u64, u8>,
    /// incarnation number (0 = first start)
    inc: usize,
    /// slots whose log-writing call was cut by the crash, not yet resolved
    inflight: Vec<u8>,
    /// slots touched by the step being executed
    touched: Vec<u8>,
    net: Net,
    transport: Arc<SimTransport>,
    observations: Vec<String>,
    /// log length right after the last open that found a torn tail (0 = none pending)
    torn_open_len: Option<u64>,
    crashes_fired: usize,
}

impl<'a> Trial<'a> {
    fn new(ctx: &'a Arc<RunCtx>, case: &'a Case, tag: u64) -> Self {
        let dir = format!("{}/t{tag}", ctx.node_dir(NODE));
        let _ = std::fs::create_dir_all(&dir);
        let net = new_net();
        let all: Vec<String> = std::iter::once("coord".to_string()).chain((0..4).map(|i| format!("shard-{i}"))).collect();
        let transport = SimTransport::new("coord", &all, &net);
        Trial {
            ctx,
            case,
            wal: format!("{dir}/tx.wal"),
            dir,
            recs: BTreeMap::new(),
            by_id: BTreeMap::new(),
            inc: 0,
            inflight: Vec::new(),
            touched: Vec::new(),
            net,
            transport,
            observations: Vec::new(),
            torn_open_len: None,
            crashes_fired: 0,
        }
    }

    fn cleanup(&self) {
        let _ = std::fs::remove_dir_all(&self.dir);
        self.ctx.forget_prefix(&self.dir);
    }

    fn observe(&mut self, s: &str) {
        if !self.observations.iter().any(|o| o == s) {
            self.observations.push(s.to_string());
        }
    }

    fn alive(&self) -> bool {
        !self.ctx.is_dead(NODE)
    }

    fn slot_of(&self, id: u64) -> Option<u8> {
        self.by_id.get(&id).copied()
    }

    fn key(kb: u8, shard: usize) -> String {
        format!("k{}", (kb as usize + shard) % 6)
    }

    /// "locks of completed transactions are released": after a completion the
    /// lock manager holds nothing for the transaction.
    fn check_no_locks(&self, c: &DistributedTxCoordinator, t: u8, class: &str, what: &str) -> Result<(), Violation> {
        let rec = &self.recs[&t];
        let lm = c.lock_manager();
        let held = lm.keys_for_transaction(rec.id);
        let mut holder_of = Vec::new();
        for s in 0..6 {
            let k = format!("k{s}");
            if lm.lock_holder(&k) == Some(rec.id) {
                holder_of.push(k);
            }
        }
        // `keys_for_transaction` alone is not decisive: when an expired lock is taken over by
        // another transaction the per-transaction index keeps a stale entry although the key
        // is held by the new owner; a lock is "held" when the key's holder is this transaction.
        if !holder_of.is_empty() {
            return Err(viol(
                class,
                format!("{what}: transaction t{t} still holds locks: keys_for_transaction={held:?}, lock_holder matches on {holder_of:?}"),
            ));
        }
        Ok(())
    }

    /// A completion (`commit`/`abort`/`complete_*` returned Ok while the node was
    /// alive). `logged` = the call writes a TxComplete record.
    fn on_completed(
        &mut self,
        c: &DistributedTxCoordinator,
        t: u8,
        committed: bool,
        logged: bool,
        how: &str,
    ) -> Result<(), Violation> {
        let inc = self.inc;
        let rec = self.recs.get_mut(&t).unwrap();
        if let Some((was_committed, inc0)) = rec.outcome {
            // "a transaction completed as committed is never afterwards aborted ..., and
            //  one completed as aborted is never committed" — for completions logged
            //  before the (latest) restart
            if inc0 < inc && was_committed != committed {
                let class = if was_committed { "committed-then-aborted" } else { "aborted-then-committed" };
                return Err(viol(
                    class,
                    format!(
                        "t{t}: completion as {} was logged in incarnation {inc0}; in incarnation {inc} {how} returned Ok and completed it as {}",
                        if was_committed { "committed" } else { "aborted" },
                        if committed { "committed" } else { "aborted" }
                    ),
                ));
            }
        } else if logged {
            rec.outcome = Some((committed, inc));
        }
        if !logged {
            rec.volatile = true;
        }
        let abort_sent = rec.abort_sent;
        if committed && abort_sent {
            self.observe("observation(unlogged timeout/no-vote abort, outside C13's clauses): an abort broadcast was sent for a transaction that was later completed as committed");
        }
        self.ctx.probe(if committed { "tx_completed_committed" } else { "tx_completed_aborted" });
        self.check_no_locks(c, t, "completed-tx-holds-lock", &format!("after {how}"))
    }

    fn exec(&mut self, c: &DistributedTxCoordinator, step: &Step, i: usize) -> Result<(), Violation> {
        let ctx = self.ctx;
        match step {
            Step::Begin { t, n, kb } => {
                if self.recs.contains_key(t) {
                    return Ok(());
                }
                let parts: Vec<usize> = (0..(*n).clamp(1, 3) as usize).collect();
                let r = {
                    let _g = id_exclusive();
                    ctx.step_wall_ms(7);
                    let _ = tensor_chain::generate_tx_id();
                    ctx.step_wall_ms(-7);
                    c.begin(&"coord".to_string(), &parts)
                };
                self.touched.push(*t);
                match r {
                    Ok(tx) => {
                        self.by_id.insert(tx.tx_id, *t);
                        self.recs.insert(
                            *t,
                            TxRec {
                                id: tx.tx_id,
                                parts,
                                kb: *kb,
                                votes: BTreeMap::new(),
                                last_vote: BTreeMap::new(),
                                prepared_logged: false,
                                outcome: None,
                                volatile: false,
                                loose: false,
                                forgotten: false,
                                abort_sent: false,
                            },
                        );
                        ctx.event(&format!("s{i} begin t{t} n{} kb{kb}", (*n).clamp(1, 3)));
                    },
                    Err(e) => ctx.event(&format!("s{i} begin t{t} failed: {e}")),
                }
            },
            Step::Vote { t, s, v } => {
                let Some(rec) = self.recs.get(t).cloned() else { return Ok(()) };
                let shard = *s as usize % rec.parts.len();
                let live_phase = c.get(rec.id).map(|x| x.phase);
                let prev = rec.last_vote.get(&shard).cloned();
                let fabricated_yes = |id: u64| PrepareVote::Yes {
                    // a handle nobody holds a lock under (late / duplicate messages take no lock)
                    lock_handle: LockManager::new().try_lock(id, &[]).unwrap_or(0),
                    delta: DeltaVector::zero(0),
                };
                let mut real_lock: Option<u64> = None;
                let first_yes = |me: &mut Self, real_lock: &mut Option<u64>| -> Result<PrepareVote, Violation> {
                    if live_phase == Some(TxPhase::Preparing) && prev.is_none() {
                        let mut dense = [0.0f32; 4];
                        dense[shard % 4] = 1.0;
                        let req = PrepareRequest {
                            tx_id: rec.id,
                            coordinator: "coord".to_string(),
                            operations: vec![Transaction::Put { key: Self::key(rec.kb, shard), data: vec![1] }],
                            delta_embedding: SparseVector::from_dense(&dense),
                            timeout_ms: 5000,
                        };
                        let vote = c.handle_prepare(&req);
                        match &vote {
                            PrepareVote::Yes { lock_handle, .. } => *real_lock = Some(*lock_handle),
                            PrepareVote::Conflict { conflicting_tx, .. } => {
                                me.ctx.probe("lock_conflict_vote");
                                // "locks of completed transactions are released" / "forgotten
                                //  without leaving locks behind": a prepare must never conflict
                                //  with a completed or forgotten transaction
                                if let Some(ot) = me.slot_of(*conflicting_tx) {
                                    let o = &me.recs[&ot];
                                    if o.outcome.is_some() || o.forgotten {
                                        return Err(viol(
                                            "lock-left-behind",
                                            format!(
                                                "prepare of t{t} shard {shard} on key {} conflicts with t{ot}, which is {}",
                                                Self::key(rec.kb, shard),
                                                if o.forgotten { "forgotten" } else { "completed" }
                                            ),
                                        ));
                                    }
                                }
                            },
                            _ => {},
                        }
                        Ok(vote)
                    } else {
                        Ok(fabricated_yes(rec.id))
                    }
                };
                let vote = match v {
                    V::Yes => first_yes(self, &mut real_lock)?,
                    V::No => PrepareVote::No { reason: "scripted".to_string() },
                    V::Resend => match &prev {
                        Some(p) => p.clone(),
                        None => first_yes(self, &mut real_lock)?,
                    },
                    V::Flip => match &prev {
                        Some(PrepareVote::Yes { .. }) => PrepareVote::No { reason: "scripted flip".to_string() },
                        Some(_) => fabricated_yes(rec.id),
                        None => PrepareVote::No { reason: "scripted".to_string() },
                    },
                };
                let (is_yes, handle) = vote_yes_handle(&vote);
                let r = c.record_vote(rec.id, shard, vote.clone());
                let alive = self.alive();
                self.touched.push(*t);
                let res = match &r {
                    Ok(None) => "accepted".to_string(),
                    Ok(Some(p)) => format!("accepted->{}", phase_name(*p)),
                    Err(VoteRecordError::TxNotFound(_)) => "notfound".to_string(),
                    Err(VoteRecordError::WrongPhase { actual, .. }) => format!("wrongphase:{}", phase_name(*actual)),
                    Err(VoteRecordError::DuplicateVote { .. }) => "duplicate".to_string(),
                };
                ctx.event(&format!("s{i} vote t{t} sh{shard} {v:?} yes={is_yes} -> {res}{}", if alive { "" } else { " (node dead)" }));
                match r {
                    Ok(p) => {
                        let rec = self.recs.get_mut(t).unwrap();
                        rec.votes.entry(shard).or_insert((is_yes, handle));
                        rec.last_vote.insert(shard, vote);
                        if alive && p == Some(TxPhase::Prepared) {
                            rec.prepared_logged = true;
                            ctx.probe("prepared_acked");
                        }
                    },
                    Err(e) => {
                        match e {
                            VoteRecordError::TxNotFound(_) => ctx.probe("vote_logged_for_unknown_tx"),
                            VoteRecordError::WrongPhase { .. } => ctx.probe("late_vote"),
                            VoteRecordError::DuplicateVote { .. } => ctx.probe("duplicate_vote"),
                        }
                        if prev.is_some() && vote_yes_handle(prev.as_ref().unwrap()).0 != is_yes {
                            ctx.probe("flipped_vote_rejected");
                        }
                        // the scripted participant gives up the lock of a vote the coordinator refused
                        if let Some(h) = real_lock {
                            c.lock_manager().release_by_handle(h);
                        }
                    },
                }
            },
            Step::Commit { t } => {
                let Some(id) = self.recs.get(t).map(|r| r.id) else { return Ok(()) };
                let r = c.commit(id);
                let alive = self.alive();
                self.touched.push(*t);
                ctx.event(&format!("s{i} commit t{t} -> {}{}", if r.is_ok() { "ok" } else { "err" }, if alive { "" } else { " (node dead)" }));
                if r.is_ok() && alive {
                    self.on_completed(c, *t, true, true, "commit")?;
                }
            },
            Step::Abort { t } => {
                let Some(id) = self.recs.get(t).map(|r| r.id) else { return Ok(()) };
                let before = c.get(id).map(|x| x.phase);
                let r = c.abort(id, "scripted abort");
                let alive = self.alive();
                self.touched.push(*t);
                ctx.event(&format!("s{i} abort t{t} -> {}{}", if r.is_ok() { "ok" } else { "err" }, if alive { "" } else { " (node dead)" }));
                if r.is_ok() && alive {
                    if before == Some(TxPhase::Committing) && self.recs[t].outcome.is_none() {
                        ctx.probe("abort_accepted_on_committing_tx");
                        self.observe("observation(decision logged, completion not logged: outside C13's clauses): abort() succeeded on a recovered transaction in phase Committing and logged it as aborted");
                    }
                    self.on_completed(c, *t, false, true, "abort")?;
                }
            },
            Step::Advance { ms } => {
                ctx.advance_ms(u64::from(*ms));
                ctx.event(&format!("s{i} advance {ms}ms"));
            },
            Step::Sweep => self.sweep(c, &format!("s{i}"))?,
            Step::Aborts => {
                let before = self.net.lock().unwrap().inflight.len();
                now_or_never(c.process_pending_aborts(&*self.transport));
                let mut g = self.net.lock().unwrap();
                let ids: Vec<u64> = g.inflight[before..]
                    .iter()
                    .filter_map(|m| if let Message::TxAbort(a) = &m.msg { Some(a.tx_id) } else { None })
                    .collect();
                g.inflight.clear();
                drop(g);
                let mut slots: Vec<u8> = ids.iter().filter_map(|id| self.slot_of(*id)).collect();
                slots.sort_unstable();
                slots.dedup();
                for t in &slots {
                    self.recs.get_mut(t).unwrap().abort_sent = true;
                    self.touched.push(*t);
                }
                if !slots.is_empty() {
                    ctx.probe("abort_broadcast_sent");
                }
                ctx.event(&format!("s{i} process_pending_aborts -> abort messages for {slots:?}"));
            },
            Step::Decide => {
                let mut ds: Vec<(u8, TxPhase)> =
                    c.get_pending_decisions().into_iter().filter_map(|(id, p)| self.slot_of(id).map(|t| (t, p))).collect();
                ds.sort_by_key(|d| d.0);
                ctx.event(&format!("s{i} decide {:?}", ds.iter().map(|(t, p)| format!("t{t}:{}", phase_name(*p))).collect::<Vec<_>>()));
                for (t, p) in ds {
                    self.drive(c, t, p, &format!("s{i} decide"))?;
                }
            },
            Step::DriveAll => {
                let slots: Vec<u8> = self.recs.keys().copied().collect();
                for t in slots {
                    let id = self.recs[&t].id;
                    if let Some(tx) = c.get(id) {
                        self.drive(c, t, tx.phase, &format!("s{i} drive"))?;
                    }
                }
            },
            Step::Recover => {
                let st = c.recover();
                ctx.event(&format!(
                    "s{i} recover() prepare={} commit={} abort={} timed_out={} completed={}",
                    st.pending_prepare, st.pending_commit, st.pending_abort, st.timed_out, st.completed
                ));
            },
            Step::Restart => {},
        }
        Ok(())
    }

    /// One step towards completion of a pending transaction.
    fn drive(&mut self, c: &DistributedTxCoordinator, t: u8, phase: TxPhase, what: &str) -> Result<(), Violation> {
        let id = self.recs[&t].id;
        let prepared_logged = self.recs[&t].prepared_logged;
        let (r, committed, logged, how) = match phase {
            TxPhase::Prepared => {
                if t % 2 == 0 {
                    (c.commit(id), true, true, "commit")
                } else {
                    (c.abort(id, "driven"), false, true, "abort")
                }
            },
            TxPhase::Committing => (c.complete_commit(id), true, false, "complete_commit"),
            TxPhase::Aborting => (c.complete_abort(id), false, false, "complete_abort"),
            _ => return Ok(()),
        };
        let alive = self.alive();
        self.touched.push(t);
        self.ctx.event(&format!(
            "{what} t{t} {} via {how} -> {}{}",
            phase_name(phase),
            if r.is_ok() { "ok" } else { "err" },
            if alive { "" } else { " (node dead)" }
        ));
        if !alive {
            return Ok(());
        }
        match r {
            Ok(()) => {
                if self.inc > 0 {
                    self.ctx.probe("recovered_tx_driven_to_completion");
                }
                self.on_completed(c, t, committed, logged, how)
            },
            Err(e) => {
                // "Transactions that had collected all votes but no outcome come back with
                //  those votes and can be driven to completion"
                if prepared_logged && self.recs[&t].outcome.is_none() {
                    return Err(viol(
                        "prepared-tx-cannot-complete",
                        format!("{what}: t{t} is pending in phase {} but {how} failed: {e}", phase_name(phase)),
                    ));
                }
                Ok(())
            },
        }
    }

    fn sweep(&mut self, c: &DistributedTxCoordinator, what: &str) -> Result<(), Violation> {
        let phases: BTreeMap<u8, TxPhase> =
            self.recs.iter().filter_map(|(t, r)| c.get(r.id).map(|x| (*t, x.phase))).collect();
        let ids = c.cleanup_timeouts();
        let mut slots: Vec<u8> = ids.iter().filter_map(|id| self.slot_of(*id)).collect();
        slots.sort_unstable();
        self.ctx.event(&format!("{what} cleanup_timeouts -> {slots:?}"));
        for t in slots {
            let inc = self.inc;
            let rec = self.recs.get_mut(&t).unwrap();
            // "a transaction completed as committed is never afterwards aborted or timed out"
            if let Some((true, inc0)) = rec.outcome {
                if inc0 < inc {
                    return Err(viol(
                        "committed-then-timed-out",
                        format!("{what}: t{t} was completed as committed (logged in incarnation {inc0}); cleanup_timeouts in incarnation {inc} lists it as timed out"),
                    ));
                }
            }
            rec.volatile = true;
            self.ctx.probe("tx_timed_out");
            if inc > 0 && phases.get(&t) == Some(&TxPhase::Committing) {
                self.ctx.probe("sweep_over_recovered_committing");
                self.observe("observation(decision logged, completion not logged: outside C13's clauses): a recovered transaction in phase Committing was timed out by cleanup_timeouts and an abort broadcast queued");
            }
            if phases.get(&t) == Some(&TxPhase::Prepared) {
                self.ctx.probe("sweep_over_prepared");
            }
        }
        Ok(())
    }

    /// Restart the coordinator. `crash` = Some(cut) after a crash (power-loss model).
    fn restart(
        &mut self,
        old: DistributedTxCoordinator,
        crash: Option<u64>,
        next: Option<&CrashSpec>,
        what: &str,
    ) -> Result<DistributedTxCoordinator, Violation> {
        let ctx = self.ctx;
        drop(old);
        if let Some(cut) = crash {
            self.crashes_fired += 1;
            ctx.fault_fired("crash");
            if let Some(ev) = ctx.crash_fired() {
                ctx.fp(&format!("crash:{}", ev.kind));
                match ev.kind {
                    "write" => ctx.probe("crash_inside_log_write"),
                    "fsync" => ctx.probe("crash_before_fsync"),
                    "ftruncate" => ctx.probe("crash_inside_tail_repair"),
                    _ => {},
                }
                ctx.event(&format!("crash fired at {} len={} ({what})", ev.kind, ev.len));
            } else {
                ctx.event(&format!("node killed ({what})"));
            }
            let cuts = ctx.crash_image(NODE, true, |_p, lo, hi| cut_choice(cut, lo, hi));
            for (_p, old_len, new_len) in &cuts {
                if new_len < old_len {
                    ctx.fault_fired("power_loss_cut");
                }
            }
            self.inflight.append(&mut self.touched.clone());
            self.touched.clear();
        }
        self.inc += 1;
        if self.inc >= 2 {
            ctx.probe("second_restart");
        }
        if self.inc >= 3 {
            ctx.probe("third_restart");
        }
        if let Some(n) = next {
            ctx.arm_crash(NODE, n.nth, n.bytes);
        }
        let raw = std::fs::read(&self.wal).unwrap_or_default();
        let (nframes, frames_end) = frames(&raw);
        let torn = frames_end < raw.len();
        if let Some(l) = self.torn_open_len.take() {
            if raw.len() as u64 > l {
                ctx.probe("torn_tail_then_append_then_restart");
            }
        }
        if torn {
            ctx.probe("reopen_with_torn_tail");
        }
        let wal = match TxWal::open(&self.wal) {
            Ok(w) => w,
            // the (next) crash fired inside this very open: what the dead process sees does not count
            Err(_) if !self.alive() => return Ok(Self::placeholder()),
            Err(e) => {
                return Err(viol("wal-open-failed", format!("{what}: TxWal::open on a log the coordinator wrote itself failed: {e}")))
            },
        };
        if torn {
            self.torn_open_len = Some(std::fs::metadata(&self.wal).map(|m| m.len()).unwrap_or(0));
        }
        // the log as recovery will see it (used to decide what the call cut by the crash had logged)
        let entries = wal.replay();
        let c = Self::placeholder().with_wal(wal);
        let restores = entries.as_ref().map(|e| {
            let st = TxRecoveryState::from_entries(e);
            !(st.prepared_txs.is_empty() && st.committing_txs.is_empty() && st.aborting_txs.is_empty())
        });
        let stats = {
            let _g = if restores.unwrap_or(false) { Some(id_shared()) } else { None };
            c.recover_from_wal()
        };
        if !self.alive() {
            // the (next) crash fired during the restart itself: nothing this incarnation did counts
            ctx.event(&format!("restart #{} died during open/recovery", self.inc));
            return Ok(c);
        }
        // "recover_from_wal succeeds on every log the coordinator wrote itself" (a coordinator
        //  that cannot be restarted from its log preserves nothing)
        let stats = stats.map_err(|e| {
            viol("recover-failed", format!("{what}: recover_from_wal on a log the coordinator wrote itself failed: {e} (log {} bytes, {} complete frames, torn tail: {torn})", raw.len(), nframes))
        })?;
        let entries = entries.map_err(|e| viol("recover-failed", format!("{what}: TxWal::replay failed: {e}")))?;
        if entries.len() < nframes {
            return Err(viol(
                "complete-record-dropped",
                format!("{what}: the log holds {nframes} complete records before the restart but replay after open returns {}", entries.len()),
            ));
        }
        // decide what the calls cut by the crash had logged
        let inflight = std::mem::take(&mut self.inflight);
        for t in inflight {
            let Some(rec) = self.recs.get_mut(&t) else { continue };
            let id = rec.id;
            let mut prepared = false;
            let mut aborting = false;
            let mut committing = false;
            let mut complete: Option<bool> = None;
            let mut released = false;
            for e in &entries {
                match e {
                    TxWalEntry::PhaseChange { tx_id, to, .. } if *tx_id == id => match to {
                        TxPhase::Prepared => prepared = true,
                        TxPhase::Aborting => aborting = true,
                        TxPhase::Committing => committing = true,
                        _ => {},
                    },
                    TxWalEntry::TxComplete { tx_id, outcome } if *tx_id == id => {
                        complete = Some(matches!(outcome, TxOutcome::Committed));
                    },
                    TxWalEntry::AllLocksReleased { tx_id } if *tx_id == id => released = true,
                    _ => {},
                }
            }
            if !rec.prepared_logged && prepared {
                rec.prepared_logged = true;
            }
            if rec.outcome.is_none() {
                if let Some(cm) = complete {
                    // the TxComplete record lies wholly inside the surviving log
                    rec.outcome = Some((cm, self.inc - 1));
                    ctx.probe("inflight_completion_found_in_log");
                    if cm && !released {
                        ctx.probe("crash_between_txcomplete_and_all_locks_released");
                    }
                } else if committing {
                    ctx.probe("crash_between_committing_and_txcomplete");
                } else if aborting && !rec.prepared_logged {
                    rec.loose = true;
                }
            }
        }
        let mut pend: Vec<String> = Vec::new();
        for (t, r) in &self.recs {
            if let Some(tx) = c.get(r.id) {
                pend.push(format!("t{t}:{}", phase_name(tx.phase)));
            }
        }
        ctx.event(&format!(
            "restart #{} ({what}): log {} bytes, {} records, torn={torn}; recovered prepare={} commit={} abort={} orphan_locks={}; pending={pend:?}",
            self.inc,
            raw.len(),
            entries.len(),
            stats.pending_prepare,
            stats.pending_commit,
            stats.pending_abort,
            stats.lock_releases_recovered
        ));
        if self.case.recover_after_restart {
            let _ = c.recover();
            ctx.probe("recover_called_after_restart");
        }
        self.check_after_restart(&c, what)?;
        Ok(c)
    }

    /// The property, clause by clause, on a freshly restarted coordinator.
    fn check_after_restart(&mut self, c: &DistributedTxCoordinator, what: &str) -> Result<(), Violation> {
        let inc = self.inc;
        let slots: Vec<u8> = self.recs.keys().copied().collect();
        for t in slots {
            let rec = self.recs[&t].clone();
            let live = c.get(rec.id);
            let live_phase = live.as_ref().map(|x| x.phase);
            if let Some((committed, inc0)) = rec.outcome {
                self.ctx.probe("completed_tx_checked_after_restart");
                if committed {
                    // "a transaction completed as committed is never afterwards aborted or timed out"
                    if matches!(live_phase, Some(TxPhase::Aborting | TxPhase::Aborted)) {
                        return Err(viol(
                            "committed-tx-reported-aborting",
                            format!("{what}: t{t} was completed as committed (logged in incarnation {inc0}); after restart #{inc} it is pending in phase {}", phase_name(live_phase.unwrap())),
                        ));
                    }
                    if c.complete_abort(rec.id).is_ok() || c.abort(rec.id, "probe").is_ok() {
                        return Err(viol(
                            "committed-then-aborted",
                            format!(
                                "{what}: t{t} was completed as committed (logged in incarnation {inc0}); after restart #{inc} it came back as {} and abort succeeded",
                                live_phase.map(phase_name).unwrap_or("absent")
                            ),
                        ));
                    }
                } else {
                    // "one completed as aborted is never committed"
                    if matches!(live_phase, Some(TxPhase::Committing | TxPhase::Committed)) {
                        return Err(viol(
                            "aborted-tx-reported-committing",
                            format!("{what}: t{t} was completed as aborted (logged in incarnation {inc0}); after restart #{inc} it is pending in phase {}", phase_name(live_phase.unwrap())),
                        ));
                    }
                    if c.complete_commit(rec.id).is_ok() || c.commit(rec.id).is_ok() {
                        return Err(viol(
                            "aborted-then-committed",
                            format!(
                                "{what}: t{t} was completed as aborted (logged in incarnation {inc0}); after restart #{inc} it came back as {} and commit succeeded",
                                live_phase.map(phase_name).unwrap_or("absent")
                            ),
                        ));
                    }
                }
                // "locks of completed transactions are released"
                self.check_no_locks(c, t, "completed-tx-holds-lock", what)?;
            } else if rec.prepared_logged {
                // "Transactions that had collected all votes but no outcome come back with
                //  those votes and can be driven to completion" (completion is exercised by
                //  DriveAll / Decide / Commit / Abort steps and the epilogue)
                match live {
                    None => {
                        // relaxation: a transaction that was completed or timed out in memory
                        // without a log record may legitimately be known as finished by an
                        // implementation that logs those events
                        if !rec.volatile {
                            return Err(viol(
                                "prepared-tx-lost",
                                format!("{what}: t{t} had collected all votes (Prepared logged) and has no logged outcome, but is absent after restart #{inc}"),
                            ));
                        }
                    },
                    Some(tx) => {
                        self.ctx.probe("prepared_tx_recovered");
                        if rec.volatile {
                            self.ctx.probe("unlogged_completion_came_back");
                            self.observe("observation(completion not logged, outside C13's clauses): a transaction finished by complete_commit/complete_abort/cleanup_timeouts came back as pending after the next restart");
                        }
                        if !matches!(tx.phase, TxPhase::Prepared | TxPhase::Committing | TxPhase::Aborting) {
                            return Err(viol(
                                "prepared-tx-wrong-phase",
                                format!("{what}: t{t} (Prepared logged, no outcome) came back in phase {}", phase_name(tx.phase)),
                            ));
                        }
                        let mut got: BTreeMap<usize, (bool, u64)> = BTreeMap::new();
                        for (s, v) in &tx.votes {
                            got.insert(*s, vote_yes_handle(v));
                        }
                        let same_handles = got == rec.votes;
                        let same_answers = got.len() == rec.votes.len()
                            && got.iter().all(|(s, (y, _))| rec.votes.get(s).map(|(y0, _)| y0 == y).unwrap_or(false));
                        if !same_answers {
                            let show = |m: &BTreeMap<usize, (bool, u64)>| {
                                m.iter().map(|(s, (y, _))| format!("{s}:{}", if *y { "yes" } else { "no" })).collect::<Vec<_>>().join(",")
                            };
                            return Err(viol(
                                "prepared-tx-votes-differ",
                                format!("{what}: t{t} collected votes [{}] but came back with [{}]", show(&rec.votes), show(&got)),
                            ));
                        }
                        if !same_handles {
                            return Err(viol(
                                "prepared-tx-vote-handles-differ",
                                format!("{what}: t{t} came back with the right yes/no answers but different lock handles than the votes it had collected"),
                            ));
                        }
                        if tx.participants != rec.parts {
                            return Err(viol(
                                "prepared-tx-participants-differ",
                                format!("{what}: t{t} came back with participants {:?}, begun with {:?}", tx.participants, rec.parts),
                            ));
                        }
                    },
                }
            } else if rec.loose {
                // an abort of a still-collecting transaction was cut after its
                // PhaseChange->Aborting record: "still collecting votes" no longer
                // describes it and no completion was logged — no clause applies
                self.ctx.probe("inflight_abort_of_collecting_tx");
            } else {
                // "transactions still collecting votes are forgotten without leaving locks behind"
                if let Some(tx) = live {
                    return Err(viol(
                        "collecting-tx-restored",
                        format!("{what}: t{t} was still collecting votes (Prepared never logged) but is pending in phase {} after restart #{inc}", phase_name(tx.phase)),
                    ));
                }
                self.check_no_locks(c, t, "forgotten-tx-holds-lock", what)?;
                if !rec.forgotten {
                    self.ctx.probe("collecting_tx_forgotten");
                }
                self.recs.get_mut(&t).unwrap().forgotten = true;
            }
        }
        Ok(())
    }

    fn placeholder() -> DistributedTxCoordinator {
        DistributedTxCoordinator::new(ConsensusManager::new(ConsensusConfig::default()), DistributedTxConfig::default())
    }

    fn start(&mut self) -> Result<DistributedTxCoordinator, Violation> {
        let wal = match TxWal::open(&self.wal) {
            Ok(w) => w,
            // the crash fired inside this very open: what the dead process sees does not count
            Err(_) if !self.alive() => return Ok(Self::placeholder()),
            Err(e) => return Err(viol("wal-open-failed", format!("first open: {e}"))),
        };
        let c = Self::placeholder().with_wal(wal);
        // empty log: no transaction is restored, no id is generated
        let r = c.recover_from_wal();
        if self.alive() {
            r.map_err(|e| viol("recover-failed", format!("recover_from_wal on an empty log failed: {e}")))?;
        }
        Ok(c)
    }

    /// Run program + epilogue with the given chain of crashes. Returns the
    /// per-step syscall log when `record` is set.
    fn run(&mut self, crashes: &[CrashSpec], record: bool) -> (Result<(), Violation>, Vec<(usize, SysEvent)>) {
        let ctx = self.ctx;
        let mut syslog: Vec<(usize, SysEvent)> = Vec::new();
        let steps = full_steps(self.case);
        let mut crash_iter = crashes.iter();
        let mut cur_crash = crash_iter.next();
        if let Some(c) = cur_crash {
            ctx.arm_crash(NODE, c.nth, c.bytes);
        }
        if record {
            ctx.start_sys_recording();
        }
        let mut c = match self.start() {
            Ok(c) => c,
            Err(v) => return (Err(v), syslog),
        };
        let mut i = 0usize;
        loop {
            // a node that died (inside step i-1, or inside a restart) is restarted
            while !self.alive() {
                let cut = cur_crash.map(|c| c.cut).unwrap_or(0);
                cur_crash = crash_iter.next();
                let what = format!("after crash #{} at step {}", self.crashes_fired + 1, i.saturating_sub(1));
                c = match self.restart(c, Some(cut), cur_crash, &what) {
                    Ok(c) => c,
                    Err(v) => return (Err(v), syslog),
                };
                if record {
                    for e in ctx.take_sys_log() {
                        syslog.push((i, e));
                    }
                }
            }
            if i >= steps.len() {
                break;
            }
            self.touched.clear();
            ctx.fp(step_kind(&steps[i]));
            if let Err(v) = self.exec(&c, &steps[i], i) {
                return (Err(v), syslog);
            }
            if self.alive() && steps[i] == Step::Restart {
                c = match self.restart(c, None, None, &format!("clean restart at step {i}")) {
                    Ok(c) => c,
                    Err(v) => return (Err(v), syslog),
                };
            }
            if record {
                for e in ctx.take_sys_log() {
                    syslog.push((i, e));
                }
            }
            i += 1;
        }
        (Ok(()), syslog)
    }
}

fn step_kind(s: &Step) -> &'static str {
    match s {
        Step::Begin { .. } => "begin",
        Step::Vote { v: V::Yes, .. } => "vote-yes",
        Step::Vote { v: V::No, .. } => "vote-no",
        Step::Vote { v: V::Resend, .. } => "vote-resend",
        Step::Vote { v: V::Flip, .. } => "vote-flip",
        Step::Commit { .. } => "commit",
        Step::Abort { .. } => "abort",
        Step::Advance { .. } => "advance",
        Step::Sweep => "sweep",
        Step::Aborts => "aborts",
        Step::Decide => "decide",
        Step::DriveAll => "driveall",
        Step::Recover => "recover",
        Step::Restart => "restart",
    }
}

/// The program followed by the fixed epilogue: restart; drive every recovered
/// transaction to completion; restart; advance past every transaction timeout
/// and sweep; a new transaction on the keys of the first one, committed;
/// restart.
fn full_steps(case: &Case) -> Vec<Step> {
    let mut v = case.steps.clone();
    let (n, kb) = case
        .steps
        .iter()
        .find_map(|s| if let Step::Begin { n, kb, .. } = s { Some((*n, *kb)) } else { None })
        .unwrap_or((2, 0));
    v.push(Step::Restart);
    v.push(Step::DriveAll);
    v.push(Step::Restart);
    v.push(Step::Advance { ms: 6000 });
    v.push(Step::Sweep);
    v.push(Step::Begin { t: EPILOGUE_SLOT, n, kb });
    for s in 0..n.clamp(1, 3) {
        v.push(Step::Vote { t: EPILOGUE_SLOT, s, v: V::Yes });
    }
    v.push(Step::Commit { t: EPILOGUE_SLOT });
    v.push(Step::Restart);
    v
}

fn sample_offsets(len: usize) -> Vec<usize> {
    if len <= 48 {
        return (1..len).collect();
    }
    let mut v: Vec<usize> = (1..14).collect();
    let step = ((len - 14) / 10).max(1);
    let mut x = 14;
    while x < len {
        v.push(x);
        x += step;
    }
    v.push(len - 2);
    v.push(len - 1);
    v.sort_unstable();
    v.dedup();
    v
}

impl Scenario for C13 {
    type Case = Case;
    fn id(&self) -> &'static str {
        "C13"
    }
    fn level(&self) -> &'static str {
        "fault_enumeration"
    }
    fn runs(&self, tier: Tier) -> u64 {
        match tier {
            Tier::Quick => 700,
            Tier::Thorough => 15_000,
        }
    }

    fn generate(&self, rng: &mut Rng, _tier: Tier, _index: u64) -> Case {
        // per-transaction scripts, randomly interleaved, then sprinkled with the other step kinds
        let ntx = rng.range(1, 4) as u8;
        let mut scripts: Vec<Vec<Step>> = Vec::new();
        for t in 0..ntx {
            let n = rng.range(1, 3) as u8;
            let kb = rng.below(6) as u8;
            let mut s = vec![Step::Begin { t, n, kb }];
            let mut order: Vec<u8> = (0..n).collect();
            for i in (1..order.len()).rev() {
                order.swap(i, rng.usize_below(i + 1));
            }
            let all_yes = rng.chance(3, 4);
            let nvotes = if rng.chance(5, 6) { n } else { rng.below(u64::from(n)) as u8 };
            for (j, sh) in order.iter().enumerate() {
                if j as u8 >= nvotes {
                    break;
                }
                let v = if all_yes || rng.chance(1, 2) { V::Yes } else { V::No };
                s.push(Step::Vote { t, s: *sh, v });
                if rng.chance(1, 6) {
                    s.push(Step::Vote { t, s: *sh, v: if rng.chance(2, 3) { V::Resend } else { V::Flip } });
                }
            }
            match rng.below(10) {
                0..=5 => s.push(Step::Commit { t }),
                6..=7 => s.push(Step::Abort { t }),
                _ => {},
            }
            // late messages and second decisions
            if rng.chance(1, 4) {
                s.push(Step::Vote { t, s: rng.below(u64::from(n)) as u8, v: *rng.pick(&[V::Yes, V::No, V::Resend, V::Flip]) });
            }
            if rng.chance(1, 4) {
                s.push(if rng.chance(1, 2) { Step::Abort { t } } else { Step::Commit { t } });
            }
            scripts.push(s);
        }
        let mut steps: Vec<Step> = Vec::new();
        let mut idx = vec![0usize; scripts.len()];
        loop {
            let live: Vec<usize> = (0..scripts.len()).filter(|k| idx[*k] < scripts[*k].len()).collect();
            if live.is_empty() {
                break;
            }
            // mostly keep working on the lowest unfinished transaction, sometimes another one
            let k = if rng.chance(2, 3) { live[0] } else { *rng.pick(&live) };
            steps.push(scripts[k][idx[k]].clone());
            idx[k] += 1;
            match rng.below(40) {
                0 => steps.push(Step::Advance { ms: *rng.pick(&[1u32, 200, 3000, 6000, 31_000]) }),
                1 => steps.push(Step::Sweep),
                2 => {
                    steps.push(Step::Advance { ms: 6000 });
                    steps.push(Step::Sweep);
                },
                3 => steps.push(Step::Aborts),
                4 => steps.push(Step::Decide),
                5 => steps.push(Step::Recover),
                6 | 7 => steps.push(Step::Restart),
                8 => steps.push(Step::DriveAll),
                9 => {
                    steps.push(Step::Sweep);
                    steps.push(Step::Aborts);
                },
                _ => {},
            }
        }
        let recover_after_restart = rng.chance(1, 4);
        let mode = if rng.chance(3, 4) {
            Mode::Enumerate
        } else {
            let n = rng.range(1, 3);
            let span = 2 * steps.len() as u64 + 8;
            Mode::Chain(
                (0..n)
                    .map(|k| CrashSpec {
                        nth: if k == 0 { rng.below(span) } else { rng.below(12) },
                        bytes: if rng.chance(2, 3) { Some(rng.range(1, 30) as usize) } else { None },
                        cut: rng.below(6),
                    })
                    .collect(),
            )
        };
        Case { steps, recover_after_restart, mode }
    }

    fn run(&self, case: &Case, ctx: &Arc<RunCtx>) -> RunOut {
        init_process();
        let mut out = RunOut::default();
        ctx.fp(&format!("rec{}:{}", case.recover_after_restart, case.mode == Mode::Enumerate));
        match &case.mode {
            Mode::Chain(specs) => {
                let mut t = Trial::new(ctx, case, 0);
                let (v, _) = t.run(specs, false);
                out.observations.append(&mut t.observations);
                out.inner_evals = 1;
                out.nontrivial = t.crashes_fired > 0;
                ctx.probe("chain_run");
                if specs.len() >= 3 {
                    ctx.probe("chain_run_with_three_specs");
                }
                if t.crashes_fired >= 2 {
                    ctx.probe("two_crashes_in_one_run");
                }
                if t.crashes_fired >= 3 {
                    ctx.probe("three_crashes_in_one_run");
                }
                if let Err(v) = v {
                    out.violation = Some(v);
                }
                t.cleanup();
            },
            Mode::Enumerate => {
                let mut t = Trial::new(ctx, case, 0);
                let (v, syslog) = t.run(&[], true);
                out.observations.append(&mut t.observations);
                t.cleanup();
                out.inner_evals = 1;
                ctx.lock().record_sys = false;
                if let Err(v) = v {
                    out.violation = Some(v);
                    out.nontrivial = true;
                    return out;
                }
                let mut tag = 1;
                for (k, (_step, ev)) in syslog.iter().enumerate() {
                    let mut points: Vec<Vec<CrashSpec>> = Vec::new();
                    let one = |bytes: Option<usize>, cut: u64| vec![CrashSpec { nth: k as u64, bytes, cut }];
                    points.push(one(None, 0));
                    points.push(one(None, 1));
                    if ev.kind == "write" {
                        for b in sample_offsets(ev.len) {
                            points.push(one(Some(b), 0));
                        }
                        // a record torn in the middle, then a second crash at each of the first
                        // syscalls of the next incarnation (the tail repair and the first appends)
                        if ev.len >= 2 {
                            for j in 0..4u64 {
                                let mut p = one(Some(ev.len / 2), 0);
                                p.push(CrashSpec { nth: j, bytes: Some(2), cut: j % 2 });
                                points.push(p);
                            }
                        }
                    } else {
                        points.push(one(None, 5));
                    }
                    for specs in points {
                        let mut t = Trial::new(ctx, case, tag);
                        tag += 1;
                        ctx.event(&format!("--- crash point {specs:?}"));
                        let (v, _) = t.run(&specs, false);
                        for o in t.observations.drain(..) {
                            if !out.observations.contains(&o) {
                                out.observations.push(o);
                            }
                        }
                        t.cleanup();
                        out.inner_evals += 1;
                        if let Err(mut v) = v {
                            v.detail = format!("{} [crash specs {:?}]", v.detail, specs);
                            out.violation = Some(v);
                            out.nontrivial = true;
                            let mut reduced = case.clone();
                            reduced.mode = Mode::Chain(specs);
                            out.reduced = serde_json::to_value(&reduced).ok();
                            return out;
                        }
                    }
                }
                out.nontrivial = syslog.len() >= 2;
            },
        }
        out
    }

    fn shrink(&self, case: &Case) -> Vec<Case> {
        let mut v = Vec::new();
        for steps in drop_chunks(&case.steps) {
            let mut c = case.clone();
            c.steps = steps;
            v.push(c);
        }
        if let Mode::Chain(specs) = &case.mode {
            for s in drop_chunks(specs) {
                if !s.is_empty() {
                    let mut c = case.clone();
                    c.mode = Mode::Chain(s);
                    v.push(c);
                }
            }
            for (i, s) in specs.iter().enumerate() {
                if s.nth > 0 {
                    let mut c = case.clone();
                    if let Mode::Chain(ss) = &mut c.mode {
                        ss[i].nth -= 1;
                    }
                    v.push(c);
                }
                if s.bytes.is_some() {
                    let mut c = case.clone();
                    if let Mode::Chain(ss) = &mut c.mode {
                        ss[i].bytes = None;
                    }
                    v.push(c);
                }
                if s.cut > 1 {
                    let mut c = case.clone();
                    if let Mode::Chain(ss) = &mut c.mode {
                        ss[i].cut = 0;
                    }
                    v.push(c);
                }
            }
        }
        if case.recover_after_restart {
            let mut c = case.clone();
            c.recover_after_restart = false;
            v.push(c);
        }
        for (i, s) in case.steps.iter().enumerate() {
            match s {
                Step::Vote { t, s: sh, v: vv } if *vv == V::Resend || *vv == V::Flip => {
                    let mut c = case.clone();
                    c.steps[i] = Step::Vote { t: *t, s: *sh, v: V::Yes };
                    v.push(c);
                },
                Step::Begin { t, n, kb } if *n > 1 || *kb > 0 => {
                    let mut c = case.clone();
                    c.steps[i] = Step::Begin { t: *t, n: 1, kb: 0 };
                    v.push(c);
                },
                Step::DriveAll | Step::Decide | Step::Recover | Step::Aborts => {
                    // already covered by drop_chunks
                },
                _ => {},
            }
        }
        v
    }

    /// A case needs a few CPU-seconds at most. The limit is generous because the
    /// shared VM was seen to stall a vCPU for minutes under load (kernel
    /// "workqueue lockup ... stuck for 190s"), which a 120 s limit turns into a
    /// harness error.
    fn watchdog_secs(&self) -> u64 {
        900
    }

    fn required_probes(&self) -> Vec<&'static str> {
        vec![
            "crash_inside_log_write",
            "crash_between_committing_and_txcomplete",
            "crash_between_txcomplete_and_all_locks_released",
            "torn_tail_then_append_then_restart",
            "sweep_over_recovered_committing",
            "vote_logged_for_unknown_tx",
            "prepared_tx_recovered",
            "completed_tx_checked_after_restart",
            "collecting_tx_forgotten",
            "recovered_tx_driven_to_completion",
            "third_restart",
            "three_crashes_in_one_run",
            "crash_inside_tail_repair",
        ]
    }
    fn rule(&self) -> String {
        "A case is a generated program (1-4 transactions of 1-3 participants with overlapping keys; begin, votes yes/no/resent/flipped/late, commit, abort, clock advances, timeout sweeps, abort broadcasts, pending-decision completion, recover(), clean restarts) followed by a fixed epilogue (restart; drive every recovered transaction to completion; restart; sweep after every timeout; a new transaction on the same keys; restart). In Enumerate mode every mutating syscall boundary of program+epilogue (with the un-synced log bytes kept, dropped, or cut at a pseudo-random length) and byte offsets inside every log write (all offsets of records up to 48 bytes, ~25 sampled ones of longer records) are each taken as a power-loss crash point (inner_enumerated_points counts these executions); each is followed by restart from the log, the property checks, the rest of the program and the epilogue (three more restarts). Chain mode runs 1-3 seeded crashes in one execution, the later ones shortly after a restart. Non-trivial: at least one crash fired (Chain) or the program issued >=2 mutating syscalls (Enumerate). Distinct: hash of (recover flag, mode, sequence of step kinds and crash sites).".into()
    }
    fn components(&self) -> Value {
        json!({
            "real": ["tensor_chain::DistributedTxCoordinator (begin, handle_prepare, record_vote, commit, abort, cleanup_timeouts, process_pending_aborts, recover_from_wal, recover, get_pending_decisions, complete_commit, complete_abort, lock_manager)", "tensor_chain::TxWal (open, append, replay), TxRecoveryState", "LockManager / WaitForGraph", "std::fs / BufWriter"],
            "simulated": ["disk: libc write/fsync/open/ftruncate interposed, files on tmpfs with durable-watermark bookkeeping; crash at a chosen syscall/byte; power loss cuts the log to a length between fsynced and written", "clock (SystemTime/Instant) advanced by the step list", "network: SimTransport collects the abort broadcasts"],
            "stub": ["participants: votes are scripted by the step list (a first YES takes its lock through the coordinator's real handle_prepare)"]
        })
    }
    fn assumptions(&self) -> Vec<String> {
        vec![
            "power loss cuts the log at byte-prefix granularity only; no reordering of blocks inside the file, no bit corruption; file creation and truncation are durable at the instant of the syscall".into(),
            "a completion counts as logged when commit/abort returned Ok while the node was alive, or when the TxComplete record of the call cut by the crash lies wholly inside the surviving log (read back through TxWal::replay right after the reopen, cross-checked against an independent count of complete frames)".into(),
            "complete_commit/complete_abort and cleanup_timeouts write no log record: their outcomes are not 'logged completions'; what happens to such transactions after the next restart is reported as an observation only".into(),
            "the restarted coordinator lives in the same process: lock handles stay unique across restarts (the handle counter is a process global), and its LockManager is new (the log does not carry locks)".into(),
            "log rotation (size limit 1 GB by default) is never reached".into(),
        ]
    }
}
