//! nsim — deterministic simulation with fault injection for Neumann.
//! See /verif/DESIGN.md.
#![allow(clippy::too_many_lines, clippy::type_complexity, dead_code)]

mod ctx;
mod driver;
mod interpose;
mod net;
mod raftsim;
mod rng;
mod sched;
mod scenarios;
mod storeutil;

use driver::{Opts, Tier};
use std::time::Duration;

fn usage() -> ! {
    eprintln!("usage: nsim check <PROPERTY> [--tier quick|thorough] [--runs N] [--jobs N] [--no-shrink]");
    eprintln!("       nsim replay <file> [--quiet]");
    std::process::exit(2);
}

macro_rules! dispatch {
    ($prop:expr, $f:ident, $($arg:expr),*) => {
        match $prop {
            "C01" => driver::$f(scenarios::c01::C01, $($arg),*),
            "C02" => driver::$f(scenarios::c02::C02, $($arg),*),
            "C05" => driver::$f(scenarios::c05::C05, $($arg),*),
            "C10" => driver::$f(scenarios::c10::C10, $($arg),*),
            "C13" => driver::$f(scenarios::c13::C13, $($arg),*),
            "C17" => driver::$f(scenarios::c17::C17, $($arg),*),
            "C12" => driver::$f(scenarios::c12::C12, $($arg),*),
            "C03" => driver::$f(scenarios::c03::C03, $($arg),*),
            "C09" => driver::$f(scenarios::c09::C09, $($arg),*),
            "C07" => driver::$f(scenarios::c07::C07, $($arg),*),
            "C08" => driver::$f(scenarios::c08::C08, $($arg),*),
            "C16" => driver::$f(scenarios::c16::C16, $($arg),*),
            "C14" => driver::$f(scenarios::c14::C14, $($arg),*),
            "C11" => driver::$f(scenarios::c11::C11, $($arg),*),
            "C19" => driver::$f(scenarios::c19::C19, $($arg),*),
            other => {
                eprintln!("HARNESS-ERROR unknown property {other}");
                2
            },
        }
    };
}

fn main() {
    let args: Vec<String> = std::env::args().collect();
    if args.len() < 3 {
        usage();
    }
    // C08: QueryRouter::init_blob creates a multi-thread tokio runtime; one idle
    // worker is enough (set before any thread exists, so no setenv/getenv race)
    if std::env::var_os("TOKIO_WORKER_THREADS").is_none() {
        std::env::set_var("TOKIO_WORKER_THREADS", "1");
    }
    sched::install_repo_hook();
    let code = match args[1].as_str() {
        "check" | "digests" => {
            let digests_mode = args[1] == "digests";
            let prop = args[2].as_str();
            let mut tier = match std::env::var("VERIF_TIER").as_deref() {
                Ok("thorough") => Tier::Thorough,
                _ => Tier::Quick,
            };
            let mut runs = None;
            let mut jobs = std::env::var("VERIF_JOBS").ok().and_then(|s| s.parse().ok()).unwrap_or(16usize);
            let mut no_shrink = false;
            let mut i = 3;
            while i < args.len() {
                match args[i].as_str() {
                    "--tier" => {
                        i += 1;
                        tier = if args.get(i).map(String::as_str) == Some("thorough") { Tier::Thorough } else { Tier::Quick };
                    },
                    "--runs" => {
                        i += 1;
                        runs = args.get(i).and_then(|s| s.parse().ok());
                    },
                    "--jobs" => {
                        i += 1;
                        jobs = args.get(i).and_then(|s| s.parse().ok()).unwrap_or(jobs);
                    },
                    "--no-shrink" => no_shrink = true,
                    _ => usage(),
                }
                i += 1;
            }
            let seed = std::env::var("VERIF_SEED").ok().and_then(|s| s.parse::<u64>().ok()).unwrap_or(20_260_925);
            let verif_dir = std::env::var("NSIM_VERIF_DIR").unwrap_or_else(|_| {
                std::env::current_dir().map(|p| p.to_string_lossy().into_owned()).unwrap_or_else(|_| "/verif".into())
            });
            let opts = Opts {
                tier,
                seed,
                jobs,
                verif_dir,
                runs_override: runs,
                max_wall: Duration::from_secs(if tier == Tier::Quick { 600 } else { 6 * 3600 }),
                no_shrink,
            };
            let _ = std::fs::create_dir_all(format!("/dev/shm/nsim-{}", std::process::id()));
            let c = if digests_mode { dispatch!(prop, digests, &opts) } else { dispatch!(prop, run_check, &opts) };
            let _ = std::fs::remove_dir_all(format!("/dev/shm/nsim-{}", std::process::id()));
            c
        },
        "replay" => {
            let path = args[2].as_str();
            let quiet = args.iter().any(|a| a == "--quiet");
            let prop = std::fs::read_to_string(path)
                .ok()
                .and_then(|s| serde_json::from_str::<serde_json::Value>(&s).ok())
                .and_then(|v| v.get("property").and_then(|p| p.as_str().map(str::to_string)))
                .unwrap_or_default();
            let _ = std::fs::create_dir_all(format!("/dev/shm/nsim-{}", std::process::id()));
            let c = dispatch!(prop.as_str(), replay, path, quiet);
            let _ = std::fs::remove_dir_all(format!("/dev/shm/nsim-{}", std::process::id()));
            c
        },
        // hidden: self-test of a scenario's own checker / model
        "selftest" if args[2] == "C11" && args.len() >= 5 => {
            println!("{}", scenarios::c11::dump_case(args[3].parse().unwrap_or(0), args[4].parse().unwrap_or(0)));
            0
        },
        "selftest" if args[2] == "C11" => {
            let _ = std::fs::create_dir_all(format!("/dev/shm/nsim-{}", std::process::id()));
            let c = match scenarios::c11::selftest() {
                Ok(r) => {
                    print!("{r}");
                    0
                },
                Err(e) => {
                    eprintln!("SELFTEST-FAILED {e}");
                    2
                },
            };
            let _ = std::fs::remove_dir_all(format!("/dev/shm/nsim-{}", std::process::id()));
            c
        },
        _ => usage(),
    };
    std::process::exit(code);
}
