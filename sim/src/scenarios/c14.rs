//! C14 — Vault: no access without a live grant, no plaintext at rest.
//!
//! Real `tensor_vault::Vault` over one shared real `TensorStore` + `GraphEngine`
//! (Argon2 at its minimum cost, rate limiter off, never sealed), one kernel
//! thread. A case is a program (<= 40 steps) over root, 3-5 identities and 0-4
//! groups and up to 6 secrets in 2-3 namespaces: set / get / list / rotate /
//! delete / grant / grant_with_permission / grant_with_ttl / revoke / delegate
//! (over one or several secrets) / batch_get / batch_set(_detailed) /
//! revoke_delegation / revoke_delegation_cascading / MEMBER-edge changes, clock
//! advances aimed just before, at and just after the expiry of a TTL grant (no
//! cleanup pass is ever called by the harness), and store snapshots.
//! Several parents may delegate overlapping secrets at different levels to one
//! child (directly or through a chain), each delegation is revoked in any order,
//! secrets are deleted and created again under the same name; the access model
//! keeps one entry per (delegation record, secret).
//! The identity pool may contain near-duplicates of other principals and of root
//! (surrounding white space, newline, other case, a confusable character, an
//! invisible character): identities are plain strings, each one is a principal
//! of its own for the model.
//!
//! Oracle: an independent reference access model (grants with level and expiry
//! window, membership edges, horizon + attenuation as documented in
//! attenuation.rs). The property text is one-directional ("can ... ONLY while
//! there is an unexpired, unrevoked grant of sufficient level"): a call that
//! SUCCEEDS although the model holds no sufficient live grant is a violation;
//! a call that is refused although the model holds one is reported as a
//! labelled observation only (the text does not promise availability).
//! Calls that take a LIST of secrets (delegate, batch_get, batch_set) are one
//! access decision per (identity, secret) pair of the list.
//! At-rest: after every mutating step the store image (`snapshot_bytes`) must
//! contain no secret value and no secret name; audit records and error strings
//! must contain no secret value.

use crate::ctx::RunCtx;
use crate::driver::{drop_chunks, RunOut, Scenario, Tier, Violation};
use crate::rng::{mix, Rng};
use graph_engine::{Direction, GraphEngine, PropertyValue};
use serde::{Deserialize, Serialize};
use serde_json::{json, Value};
use std::collections::{BTreeMap, BTreeSet, HashMap, VecDeque};
use std::sync::Arc;
use std::time::Duration;
use tensor_store::TensorStore;
use tensor_vault::{AttenuationPolicy, Permission, Vault, VaultConfig, VaultError};

// ---------------------------------------------------------------- case

#[derive(Serialize, Deserialize, Clone, Copy, Debug, PartialEq)]
pub enum Rel {
    Before,
    At,
    After,
}

#[derive(Serialize, Deserialize, Clone, Debug, PartialEq)]
pub enum Step {
    /// set(who, secret, value(val, size class))
    Set { who: u8, sec: u8, val: u32, sz: u8 },
    Get { who: u8, sec: u8 },
    /// get_version(who, secret, 1): a read path that is NOT in the property's
    /// operation list; judged as a labelled observation only
    GetVersion { who: u8, sec: u8 },
    /// pat: 0 = "*", 1 = "<namespace of sec>/*", 2 = exact name of sec
    List { who: u8, sec: u8, pat: u8 },
    Rotate { who: u8, sec: u8, val: u32, sz: u8 },
    Delete { who: u8, sec: u8 },
    /// grant(): Admin level
    Grant { who: u8, to: u8, sec: u8 },
    GrantPerm { who: u8, to: u8, sec: u8, lvl: u8 },
    GrantTtl { who: u8, to: u8, sec: u8, lvl: u8, ttl_ms: u32 },
    Revoke { who: u8, to: u8, sec: u8 },
    /// delegate(who -> to, [sec] ++ more, lvl, ttl): `Vault::delegate` takes a LIST of
    /// secrets; `more` holds the further entries of the list (empty in old replay files)
    Delegate {
        who: u8,
        to: u8,
        sec: u8,
        lvl: u8,
        ttl_ms: Option<u32>,
        #[serde(default)]
        more: Vec<u8>,
    },
    /// revoke_delegation(parent, child) / revoke_delegation_cascading(parent, child):
    /// `parent` indexes all principals (as `who`), `child` the non-root ones (as `to`)
    RevokeDeleg { parent: u8, child: u8, cascade: bool },
    /// batch_get(who, [secs]): the list form of get; one read decision per listed secret
    BatchGet { who: u8, secs: Vec<u8> },
    /// batch_set / batch_set_detailed(who, [(sec, value(val + k, sz))]): the list form of
    /// set; one overwrite (or create) decision per listed secret
    BatchSet { who: u8, secs: Vec<u8>, val: u32, sz: u8, detailed: bool },
    /// add / remove the MEMBER edge child -> group
    Member { child: u8, group: u8, on: bool },
    /// move the clock relative to the expiry window of the g-th TTL grant issued so far
    Advance { g: u8, rel: Rel, off_ns: u32 },
    AdvanceMs(u32),
    /// at-rest + audit check at an arbitrary point
    Snapshot,
    /// OBSERVATION configuration only: step the wall clock (never a verdict afterwards)
    WallStep { ms: i32 },
    /// OBSERVATION configuration only: drop the Vault and rebuild it over the same
    /// store (the TTL table is persisted as unix-ms and reloaded into Instants)
    Reload,
}

#[derive(Serialize, Deserialize, Clone, Debug)]
pub struct Cfg {
    pub n_ids: u8,
    pub n_groups: u8,
    pub n_secrets: u8,
    pub n_ns: u8,
    pub admin_limit: u8,
    pub write_limit: u8,
    pub horizon: u8,
    /// 0: long unique alphanumeric names and values, at-rest checks judged;
    /// 1: short / non-ASCII names and arbitrary UTF-8 values, only the allow/deny matrix judged
    pub name_mode: u8,
    pub max_versions: u8,
    pub name_seed: u64,
    /// identities whose key is a near-duplicate of another principal's key (absent in old
    /// replay files: every identity is a well-formed random key)
    #[serde(default)]
    pub lookalikes: Vec<Lookalike>,
}

/// identity slot `slot` (1..=n_ids) carries the key of principal `of` (0 = root, an
/// identity or a group) altered by `kind` (see `near_duplicate`)
#[derive(Serialize, Deserialize, Clone, Copy, Debug, PartialEq)]
pub struct Lookalike {
    pub slot: u8,
    pub of: u8,
    pub kind: u8,
}

#[derive(Serialize, Deserialize, Clone, Debug)]
pub struct Case {
    pub cfg: Cfg,
    pub steps: Vec<Step>,
}

pub struct C14;

// ---------------------------------------------------------------- names and values

const ALNUM: &[u8] = b"ABCDEFGHIJKLMNOPQRSTUVWXYZabcdefghijklmnopqrstuvwxyz0123456789";
/// documented default of VaultConfig::max_value_size ("the size limit")
const MAX_VALUE: usize = 65_531;

fn alnum(r: &mut Rng, n: usize) -> String {
    (0..n).map(|_| ALNUM[r.usize_below(ALNUM.len())] as char).collect()
}

fn utf8_junk(r: &mut Rng, n_bytes: usize) -> String {
    // arbitrary UTF-8: mixture of 1..4 byte scalars including controls, quotes, NUL
    const POOL: &[char] = &[
        'a', 'Z', '0', ' ', '"', '\\', '\n', '\0', '\t', '/', '*', ':', '{', '}', 'é', 'ß', 'Ж', 'я', 'م', '中', '秘', '鍵', '한',
        '\u{200b}', '\u{feff}', '🔑', '🦀', '\u{10ffff}', '\u{7f}', '%',
    ];
    let mut s = String::new();
    while s.len() < n_bytes {
        let c = POOL[r.usize_below(POOL.len())];
        if s.len() + c.len_utf8() > n_bytes {
            s.push('x');
        } else {
            s.push(c);
        }
    }
    s
}

const SHORT_NAMES: &[&str] = &[
    "a", "k", "Z", "0", "ключ", "秘密", "🔑", "a b", "é", "x.y", "p:q", "näme", "K", "aa", "_", "-", "한글", "م", "tab\tname", "q\"uote",
    // characters that mean something to globs, patterns, paths and formats
    "*", "a*b", "?", "[a]", "%s", "{x}", "..", "\\", "a|b", "$HOME", "*ключ*",
];
const SHORT_NS: &[&str] = &["n", "пр", "空", "s p", "N"];

struct Names {
    root: String,
    principals: Vec<String>, // [root, ids.., groups..]
    n_ids: usize,
    secrets: Vec<String>,
    sec_ns: Vec<String>,
    /// near-duplicate key -> the key it was derived from
    alias_of: BTreeMap<String, String>,
}

pub const N_LOOKALIKE_KINDS: u8 = 12;

/// A key that a human (or a careless normalisation) would take for `key` and that is a
/// different string: "for every ... name (arbitrary UTF-8)" / "a requester other than the
/// root identity" — the vault identifies requesters by their key, nothing else.
fn near_duplicate(key: &str, kind: u8) -> String {
    let (head, tail) = match key.find(':') {
        Some(i) => (&key[..i], &key[i..]),
        None => (key, ""),
    };
    match kind % N_LOOKALIKE_KINDS {
        0 => format!("{key} "),
        1 => format!(" {key}"),
        2 => format!("{key}\n"),
        3 => format!("\t{key}"),
        4 => format!(" {key} "),
        // other case
        5 => key.to_uppercase(),
        6 => {
            let mut c = head.chars();
            match c.next() {
                Some(f) => format!("{}{}{tail}", f.to_uppercase(), c.as_str()),
                None => format!("{key} "),
            }
        },
        // a confusable character: the first Latin letter that has a Cyrillic twin
        7 => {
            const TWINS: &[(char, char)] = &[('o', '\u{43e}'), ('e', '\u{435}'), ('a', '\u{430}'), ('c', '\u{441}'), ('p', '\u{440}'), ('x', '\u{445}'), ('y', '\u{443}'), ('s', '\u{455}'), ('i', '\u{456}')];
            let mut done = false;
            let out: String = key
                .chars()
                .map(|ch| {
                    if !done {
                        if let Some((_, t)) = TWINS.iter().find(|(l, _)| *l == ch) {
                            done = true;
                            return *t;
                        }
                    }
                    ch
                })
                .collect();
            if done { out } else { format!("{key}\u{200b}") }
        },
        // invisible characters
        8 => format!("{key}\u{200b}"),
        9 => format!("{key}\0"),
        // full-width colon, no-break space
        10 => key.replacen(':', "\u{ff1a}", 1),
        _ => format!("{key}\u{a0}"),
    }
}

impl Names {
    fn new(cfg: &Cfg) -> Self {
        let mut r = Rng::new(cfg.name_seed ^ 0xC14);
        let n_ids = cfg.n_ids.clamp(1, 8) as usize;
        let n_groups = cfg.n_groups.min(8) as usize;
        let mut principals = vec![Vault::ROOT.to_string()];
        for _ in 0..n_ids {
            principals.push(format!("user:{}", alnum(&mut r, 10)));
        }
        for _ in 0..n_groups {
            principals.push(format!("team:{}", alnum(&mut r, 10)));
        }
        // near-duplicates take identity slots; the original must be a principal that is not a
        // near-duplicate itself, and the altered key must be new (else the slot keeps its key)
        let mut alias_of = BTreeMap::new();
        let mut taken: BTreeSet<usize> = BTreeSet::new();
        for l in &cfg.lookalikes {
            let (slot, of) = (l.slot as usize, l.of as usize);
            if slot == 0 || slot > n_ids || of >= principals.len() || of == slot || taken.contains(&of) || taken.contains(&slot) {
                continue;
            }
            // (a slot that serves as an original elsewhere keeps its key)
            if cfg.lookalikes.iter().any(|m| m.of as usize == slot) {
                continue;
            }
            let key = near_duplicate(&principals[of], l.kind);
            if key == principals[of] || principals.contains(&key) {
                continue;
            }
            alias_of.insert(key.clone(), principals[of].clone());
            principals[slot] = key;
            taken.insert(slot);
        }
        let n_ns = cfg.n_ns.clamp(1, 4) as usize;
        let n_secrets = cfg.n_secrets.clamp(1, 8) as usize;
        let mut secrets = Vec::new();
        let mut sec_ns = Vec::new();
        if cfg.name_mode == 0 {
            let nss: Vec<String> = (0..n_ns).map(|_| alnum(&mut r, 24)).collect();
            for i in 0..n_secrets {
                let ns = nss[i % n_ns].clone();
                // every third name carries a character that means something to globs,
                // patterns and formats (still a unique 24-character needle)
                let leaf = if i % 3 == 2 {
                    let m = ['*', '?', '%', '[', '$', '|'][r.usize_below(6)];
                    format!("{}{m}{}", alnum(&mut r, 12), alnum(&mut r, 11))
                } else {
                    alnum(&mut r, 24)
                };
                secrets.push(format!("{ns}/{leaf}"));
                sec_ns.push(ns);
            }
        } else {
            // short / non-ASCII names, one of them long, some without a namespace
            let mut used = BTreeSet::new();
            for i in 0..n_secrets {
                let mut name;
                loop {
                    let leaf = if i == 1 {
                        utf8_name(&mut r, 300)
                    } else {
                        SHORT_NAMES[r.usize_below(SHORT_NAMES.len())].to_string()
                    };
                    let with_ns = r.chance(1, 2);
                    name = if with_ns { format!("{}/{}", SHORT_NS[i % n_ns.min(SHORT_NS.len())], leaf) } else { leaf };
                    if used.insert(name.clone()) {
                        break;
                    }
                }
                let ns = name.find('/').map_or("default".to_string(), |i| name[..i].to_string());
                secrets.push(name);
                sec_ns.push(ns);
            }
        }
        Names { root: Vault::ROOT.to_string(), principals, n_ids, secrets, sec_ns, alias_of }
    }
    fn who(&self, i: u8) -> &str {
        &self.principals[i as usize % self.principals.len()]
    }
    fn sec(&self, i: u8) -> usize {
        i as usize % self.secrets.len()
    }
    fn group(&self, i: u8) -> Option<&str> {
        let n_groups = self.principals.len() - 1 - self.n_ids;
        if n_groups == 0 {
            return None;
        }
        Some(&self.principals[1 + self.n_ids + (i as usize % n_groups)])
    }
    /// a non-root principal (identity or group)
    fn nonroot(&self, i: u8) -> &str {
        let n = self.principals.len() - 1;
        &self.principals[1 + (i as usize % n)]
    }
}

fn utf8_name(r: &mut Rng, n_bytes: usize) -> String {
    const POOL: &[char] = &['a', 'Ω', 'я', '中', '🔑', 'é', ' ', '.', '-', '한', '*', '?', '%'];
    let mut s = String::new();
    while s.len() < n_bytes {
        s.push(POOL[r.usize_below(POOL.len())]);
    }
    s
}

fn value_for(cfg: &Cfg, val: u32, sz: u8) -> String {
    let mut r = Rng::new(mix(&[cfg.name_seed, u64::from(val), 0x76616c]));
    if cfg.name_mode == 0 {
        let n = match sz % 10 {
            0..=4 => 24 + r.usize_below(40),
            5 => 1019, // 1019 + 5 = 1024: exactly fills the Medium padding bucket
            6 => 4000 + r.usize_below(200),
            7 => MAX_VALUE,
            // one byte and well over the size limit: the call must be refused, and the
            // refusal (error text, audit record) must not carry the value
            8 => MAX_VALUE + 1,
            _ => MAX_VALUE + 700 + r.usize_below(300),
        };
        alnum(&mut r, n)
    } else {
        let n = match sz % 10 {
            0 => 1,
            1 => 2 + r.usize_below(6),
            2..=4 => 8 + r.usize_below(120),
            5 => 251, // 251 + 5 = 256: exactly fills the Small padding bucket
            6 => 3000 + r.usize_below(2000),
            7 => MAX_VALUE,
            8 => MAX_VALUE + 1,
            _ => MAX_VALUE + 700 + r.usize_below(300),
        };
        utf8_junk(&mut r, n)
    }
}

// ---------------------------------------------------------------- reference model

#[derive(Clone, Debug)]
struct MGrant {
    grantee: String,
    sec: usize,
    level: u8,
    /// expiry instant lies somewhere in [lo, hi] (simulated monotonic ns); None = no TTL
    exp: Option<(u64, u64)>,
    /// why the grant is no longer in force, if so: "revoked" | "deleted-secret"
    dead: Option<&'static str>,
    /// index among TTL grants issued in this run
    ttl_idx: Option<usize>,
    /// the delegation record (serial number of the successful `delegate` call) this entry
    /// belongs to; None for grant / grant_with_permission / grant_with_ttl
    rec: Option<u32>,
}

/// One delegation record: what `delegate(parent, child, secrets, ..)` registered. The vault
/// keeps one record per (parent, child); a later delegation between the same two replaces it.
#[derive(Clone, Debug)]
struct MRecord {
    id: u32,
    secs: Vec<usize>,
}

#[derive(Default)]
struct Model {
    exists: Vec<bool>,
    value: Vec<Option<String>>,
    grants: Vec<MGrant>,
    members: BTreeSet<(String, String)>, // child -> group
    /// current delegation record per (parent, child)
    records: BTreeMap<(String, String), MRecord>,
    next_rec: u32,
    /// parent of every record ever made, by record id
    rec_parent: Vec<String>,
    admin_limit: usize,
    write_limit: usize,
    horizon: usize,
}

#[derive(Clone, Copy, PartialEq)]
enum Bound {
    /// only grants that are certainly live during the whole call
    Min,
    /// grants that are live or possibly live at some instant of the call
    Max,
}

#[derive(Clone, Copy, Default)]
struct Hyp {
    expired: bool,
    revoked: bool,
    deleted: bool,
    any_distance: bool,
}

impl Model {
    /// attenuation.rs, `AttenuationPolicy::attenuate`, restated from its documentation:
    /// beyond `horizon` hops nothing; Admin survives up to `admin_limit` hops, then
    /// degrades to Write up to `write_limit`, then Read; Write survives up to
    /// `write_limit`, then Read; Read stays Read.
    fn attenuate(&self, level: u8, hops: usize, any_distance: bool) -> u8 {
        if any_distance {
            return level;
        }
        if hops > self.horizon {
            return 0;
        }
        match level {
            3 => {
                if hops <= self.admin_limit {
                    3
                } else if hops <= self.write_limit {
                    2
                } else {
                    1
                }
            },
            2 => {
                if hops <= self.write_limit {
                    2
                } else {
                    1
                }
            },
            l => l,
        }
    }

    /// member-hop distance of every entity reachable from `req` over MEMBER edges
    fn reach(&self, req: &str) -> BTreeMap<String, usize> {
        let mut dist = BTreeMap::new();
        dist.insert(req.to_string(), 0usize);
        let mut q = VecDeque::new();
        q.push_back(req.to_string());
        while let Some(cur) = q.pop_front() {
            let d = dist[&cur];
            for (c, g) in &self.members {
                if c == &cur && !dist.contains_key(g) {
                    dist.insert(g.clone(), d + 1);
                    q.push_back(g.clone());
                }
            }
        }
        dist
    }

    /// effective level (0 none, 1 read, 2 write, 3 admin) and the hop count that gave it
    fn perm(&self, req: &str, sec: usize, t0: u64, t1: u64, b: Bound, h: Hyp) -> (u8, usize) {
        if req == Vault::ROOT {
            return (3, 0);
        }
        let dist = self.reach(req);
        let mut best = (0u8, 0usize);
        for g in &self.grants {
            if g.sec != sec {
                continue;
            }
            match g.dead {
                Some("revoked") if !h.revoked => continue,
                Some("deleted-secret") if !h.deleted => continue,
                _ => {},
            }
            if let Some((lo, hi)) = g.exp {
                let live = match b {
                    // certainly live: the call ended strictly before the earliest possible expiry
                    Bound::Min => t1 < lo,
                    // possibly live: the call's first clock read (>= t0 + 100 ns, every read moves
                    // time) can still be before the latest possible expiry
                    Bound::Max => t0 < hi,
                };
                if !live && !h.expired {
                    continue;
                }
            }
            let Some(d) = dist.get(&g.grantee) else { continue };
            let hops = d + 1;
            let l = self.attenuate(g.level, hops, h.any_distance);
            if l > best.0 {
                best = (l, hops);
            }
        }
        best
    }

    /// why `need` is not met (only called when perm(Max) < need)
    fn reason(&self, req: &str, sec: usize, t0: u64, t1: u64, need: u8) -> &'static str {
        let p = |h: Hyp| self.perm(req, sec, t0, t1, Bound::Max, h).0;
        if p(Hyp { expired: true, ..Hyp::default() }) >= need {
            "expired"
        } else if p(Hyp { revoked: true, ..Hyp::default() }) >= need {
            "revoked"
        } else if p(Hyp { deleted: true, ..Hyp::default() }) >= need {
            "deleted-secret"
        } else if p(Hyp { any_distance: true, ..Hyp::default() }) >= need {
            "beyond-distance-or-attenuated"
        } else if p(Hyp::default()) > 0 {
            "insufficient-level"
        } else if p(Hyp { expired: true, revoked: true, deleted: true, any_distance: true }) >= need {
            "expired-revoked-or-distant"
        } else {
            "no-grant"
        }
    }
}

// ---------------------------------------------------------------- at-rest scanning

/// Needles for one secret value: the value itself when short, otherwise 24-byte
/// fragments (head, tail and one per 256 bytes) so that a partial copy of a long
/// value kept in clear is found as well. Values are ASCII alphanumerics here.
fn value_needles(v: &str) -> Vec<(String, &'static str)> {
    if v.len() <= 48 || !v.is_ascii() {
        return vec![(v.to_string(), "value")];
    }
    let mut out = vec![(v[..24].to_string(), "value"), (v[v.len() - 24..].to_string(), "value")];
    let mut off = 256;
    while off + 24 <= v.len() {
        out.push((v[off..off + 24].to_string(), "value"));
        off += 256;
    }
    out
}

fn is_name_byte(b: u8) -> bool {
    b.is_ascii_alphanumeric() || matches!(b, b'/' | b'*' | b'?' | b'%' | b'[' | b'$' | b'|')
}

/// All needles are >= 24 bytes of [A-Za-z0-9/] plus the pattern characters the name
/// generator uses; find maximal runs of such bytes
/// in the image and look for needles only inside runs long enough.
fn scan_image<'a>(img: &[u8], needles: &'a [(String, &'static str)]) -> Option<&'a (String, &'static str)> {
    let mut i = 0;
    let n = img.len();
    while i < n {
        if !is_name_byte(img[i]) {
            i += 1;
            continue;
        }
        let s = i;
        while i < n && is_name_byte(img[i]) {
            i += 1;
        }
        if i - s >= 24 {
            // SAFETY of from_utf8: bytes are ASCII
            let run = std::str::from_utf8(&img[s..i]).unwrap_or("");
            for nd in needles {
                if run.len() >= nd.0.len() && run.contains(nd.0.as_str()) {
                    return Some(nd);
                }
            }
        }
    }
    None
}

fn tensor_contains(t: &tensor_store::TensorData, needle: &str) -> bool {
    use tensor_store::{ScalarValue, TensorValue};
    let nb = needle.as_bytes();
    for (k, v) in t.fields_iter() {
        if k.contains(needle) {
            return true;
        }
        let hit = match v {
            TensorValue::Scalar(ScalarValue::String(s)) => s.contains(needle),
            TensorValue::Scalar(ScalarValue::Bytes(b)) => b.len() >= nb.len() && b.windows(nb.len()).any(|w| w == nb),
            TensorValue::Pointer(p) => p.contains(needle),
            TensorValue::Pointers(ps) => ps.iter().any(|p| p.contains(needle)),
            _ => false,
        };
        if hit {
            return true;
        }
    }
    false
}

// ---------------------------------------------------------------- the run

#[derive(Clone, Copy, PartialEq, Debug)]
enum Outcome {
    Ok,
    /// AccessDenied / InsufficientPermission: an access decision
    Denied,
    /// RateLimited / Sealed: not an access decision, step excluded from the comparison
    Excluded,
    /// NotFound, GraphError, ...: refused for another reason
    Other,
}

fn classify<T>(r: &Result<T, VaultError>) -> Outcome {
    match r {
        Ok(_) => Outcome::Ok,
        Err(VaultError::AccessDenied(_) | VaultError::InsufficientPermission(_)) => Outcome::Denied,
        Err(VaultError::RateLimited(_) | VaultError::Sealed(_)) => Outcome::Excluded,
        Err(_) => Outcome::Other,
    }
}

fn perm_of(l: u8) -> Permission {
    match l {
        3 => Permission::Admin,
        2 => Permission::Write,
        _ => Permission::Read,
    }
}

fn lvl_name(l: u8) -> &'static str {
    match l {
        0 => "none",
        1 => "read",
        2 => "write",
        _ => "admin",
    }
}

struct Run<'a> {
    ctx: &'a Arc<RunCtx>,
    case: &'a Case,
    names: Names,
    store: TensorStore,
    graph: Arc<GraphEngine>,
    vault: Option<Vault>,
    m: Model,
    /// needles of every value ever handed to set/rotate (accepted or refused)
    values: Vec<(String, &'static str)>,
    /// values whose write the vault refused
    refused_values: BTreeSet<String>,
    name_needles: Vec<(String, &'static str)>,
    ns_needles: Vec<(String, &'static str)>,
    ttl_windows: Vec<(u64, u64)>,
    /// simulated time of the last call that runs the vault's own cleanup (get / list)
    last_cleanup: u64,
    /// set once a WallStep / Reload was executed: verdicts become observations
    tainted: Option<&'static str>,
    revoked_pairs: BTreeSet<(String, usize)>,
    /// (child, secret) pairs of delegation records taken back by revoke_delegation(_cascading)
    deleg_revoked_pairs: BTreeSet<(String, usize)>,
    deleted_secs: BTreeSet<usize>,
    viols: Vec<(u8, Violation)>,
    obs: BTreeSet<String>,
    err_leak_checked: u64,
    ns_seen: bool,
    allowed_calls: u64,
    denied_calls: u64,
}

fn short(s: &str) -> String {
    if s.chars().count() <= 40 {
        s.escape_debug().to_string()
    } else {
        let head: String = s.chars().take(16).collect();
        format!("{}..({}B)", head.escape_debug(), s.len())
    }
}

impl<'a> Run<'a> {
    fn vault_config(cfg: &Cfg) -> VaultConfig {
        let mut vc = VaultConfig::default();
        vc.salt = Some([0x14; 16]);
        // Argon2 minimum: m = 8 KiB * lanes, t = 1, p = 1 (tuning knob only)
        vc.argon2_memory_cost = 8;
        vc.argon2_time_cost = 1;
        vc.argon2_parallelism = 1;
        vc.rate_limit = None; // rate limiter off
        vc.max_versions = cfg.max_versions.max(1) as usize;
        vc.attenuation = AttenuationPolicy {
            admin_limit: cfg.admin_limit as usize,
            write_limit: cfg.write_limit as usize,
            horizon: cfg.horizon as usize,
        };
        vc.max_delegation_depth = Some(64);
        vc
    }

    fn v(&self) -> &Vault {
        self.vault.as_ref().expect("vault present")
    }

    fn now(&self) -> u64 {
        self.ctx.now_mono_ns()
    }

    /// a principal's key for a report, with what it is a near-duplicate of
    fn describe(&self, key: &str) -> String {
        match self.names.alias_of.get(key) {
            Some(orig) => format!("\"{}\" (a key of its own, near-duplicate of \"{}\")", short(key), short(orig)),
            None => short(key),
        }
    }

    fn violation(&mut self, prio: u8, class: String, detail: String) {
        if let Some(t) = self.tainted {
            // outside the quantifier: labelled observation, never a verdict
            self.obs.insert(format!("{t}: {class}"));
            return;
        }
        self.ctx.event(&format!("VIOLATION {class}: {detail}"));
        if !self.viols.iter().any(|(_, v)| v.class == class) {
            self.viols.push((prio, Violation { class, detail }));
        }
    }

    fn ent_node(&self, key: &str) -> Option<u64> {
        if let Ok(nodes) = self.graph.find_nodes_by_property("entity_key", &PropertyValue::String(key.to_string())) {
            if let Some(n) = nodes.first() {
                return Some(n.id);
            }
        }
        let mut props = HashMap::new();
        props.insert("entity_key".to_string(), PropertyValue::String(key.to_string()));
        self.graph.create_node("VaultEntity", props).ok()
    }

    fn set_member(&mut self, child: &str, group: &str, on: bool) {
        let (Some(c), Some(g)) = (self.ent_node(child), self.ent_node(group)) else { return };
        if on {
            if self.m.members.contains(&(child.to_string(), group.to_string())) {
                return;
            }
            if self.graph.create_edge(c, g, "MEMBER", HashMap::new(), true).is_ok() {
                self.m.members.insert((child.to_string(), group.to_string()));
            }
        } else {
            if let Ok(edges) = self.graph.edges_of(c, Direction::Outgoing) {
                for e in edges {
                    if e.edge_type == "MEMBER" && e.from == c && e.to == g {
                        let _ = self.graph.delete_edge(e.id);
                    }
                }
            }
            self.m.members.remove(&(child.to_string(), group.to_string()));
        }
    }

    /// "secret values never appear in ... error messages"
    fn check_error_text(&mut self, op: &str, e: &VaultError) {
        if self.case.cfg.name_mode != 0 {
            return;
        }
        self.err_leak_checked += 1;
        let a = e.to_string();
        let b = format!("{e:?}");
        if self.values.iter().any(|(v, _)| a.contains(v.as_str()) || b.contains(v.as_str())) {
            let class = format!("C14.value-in-error-message/{op}");
            let detail = format!("error text of {op} contains a secret value: {}", short(&a));
            self.violation(1, class, detail);
        }
    }

    /// "Neither secret values nor secret names ever appear in readable form in
    /// the underlying store or its snapshots"
    fn check_at_rest(&mut self, after: &str) {
        if self.case.cfg.name_mode != 0 {
            return;
        }
        let img = match self.store.snapshot_bytes() {
            Ok(b) => b,
            Err(e) => {
                self.obs.insert(format!("snapshot_bytes failed: {e}"));
                return;
            },
        };
        self.ctx.probe("store_image_scanned");
        // vacuity guard: a string we know is stored in clear (an entity key of the
        // access graph) must be findable by the same scanner
        if let Some(hit) = scan_image(&img, &self.values).cloned() {
            let where_ = self.locate(&hit.0);
            let class = format!("C14.value-at-rest/{where_}");
            let detail = format!("after {after}: store image contains (a fragment of) a secret value, {}, in clear (record class {where_})", short(&hit.0));
            self.violation(1, class, detail);
        }
        if let Some(hit) = scan_image(&img, &self.name_needles).cloned() {
            // one finding per class of store record that holds the name; the rarer
            // record classes are reported first so that the commonest does not mask them
            for where_ in self.locate_all(&hit.0) {
                let prio = match where_.as_str() {
                    "vault_secret" => 9,
                    "_vault_ttl_grants" => 8,
                    "_vdel" => 7,
                    _ => 6,
                };
                let class = format!("C14.name-at-rest/{where_}");
                let detail = format!("after {after}: store image contains secret name {} in clear (record class {where_})", short(&hit.0));
                self.violation(prio, class, detail);
            }
        }
        if !self.ns_seen {
            // a namespace prefix alone is not the secret's name: observation only.
            // (needle "<ns>/" would also match the full name, so look for the bare prefix
            // in records that do not hold a full name)
            let ns: Vec<String> = self.ns_needles.iter().map(|n| n.0.clone()).collect();
            for n in ns {
                for where_ in self.locate_all(&n) {
                    if !matches!(where_.as_str(), "vault_secret" | "_vault_ttl_grants" | "_vdel" | "unlocated") {
                        self.obs.insert(format!("namespace-prefix-at-rest/{where_}"));
                        self.ns_seen = true;
                    }
                }
            }
        }
    }

    /// Second view of "the underlying store": every live record (key and every
    /// string / bytes / pointer field), scanned with the same needles.
    fn check_live_records(&mut self, after: &str) {
        if self.case.cfg.name_mode != 0 {
            return;
        }
        use tensor_store::{ScalarValue, TensorValue};
        let mut hits: Vec<(u8, String, String)> = Vec::new();
        // scan order of the store is not stable between executions: sort
        let mut keys = self.store.scan("");
        keys.sort();
        for key in keys {
            let cls = match key.find(':') {
                Some(i) => key[..i].to_string(),
                None => key.clone(),
            };
            let mut bufs: Vec<Vec<u8>> = vec![key.as_bytes().to_vec()];
            if let Ok(t) = self.store.get(&key) {
                for (k, v) in t.fields_iter() {
                    bufs.push(k.as_bytes().to_vec());
                    match v {
                        TensorValue::Scalar(ScalarValue::String(x)) => bufs.push(x.as_bytes().to_vec()),
                        TensorValue::Scalar(ScalarValue::Bytes(b)) => bufs.push(b.clone()),
                        TensorValue::Pointer(x) => bufs.push(x.as_bytes().to_vec()),
                        TensorValue::Pointers(xs) => bufs.extend(xs.iter().map(|x| x.as_bytes().to_vec())),
                        _ => {},
                    }
                }
            }
            for b in &bufs {
                if scan_image(b, &self.values).is_some() {
                    hits.push((1, format!("C14.value-at-rest/{cls}"), format!("after {after}: live store record of class {cls} holds (a fragment of) a secret value in clear")));
                }
                if scan_image(b, &self.name_needles).is_some() {
                    let prio = match cls.as_str() {
                        "vault_secret" => 9,
                        "_vault_ttl_grants" => 8,
                        "_vdel" => 7,
                        _ => 6,
                    };
                    hits.push((prio, format!("C14.name-at-rest/{cls}"), format!("after {after}: live store record of class {cls} holds a secret name in clear")));
                }
            }
        }
        self.ctx.probe("live_records_scanned");
        hits.sort();
        hits.dedup();
        for (p, c, d) in hits {
            self.violation(p, c, d);
        }
    }

    fn locate(&self, needle: &str) -> String {
        self.locate_all(needle).join("+")
    }

    /// which class of store record holds `needle` (stable: key up to the first ':' or the whole fixed key)
    fn locate_all(&self, needle: &str) -> Vec<String> {
        let mut classes = BTreeSet::new();
        for key in self.store.scan("") {
            let hit = key.contains(needle)
                || self.store.get(&key).map(|t| tensor_contains(&t, needle)).unwrap_or(false);
            if hit {
                let cls = match key.find(':') {
                    Some(i) => key[..i].to_string(),
                    None => key.clone(),
                };
                classes.insert(cls);
            }
        }
        if classes.is_empty() {
            vec!["unlocated".to_string()]
        } else {
            classes.into_iter().collect()
        }
    }

    /// "secret values never appear in audit records"
    fn check_audit(&mut self, after: &str) {
        if self.case.cfg.name_mode != 0 {
            return;
        }
        let Ok(entries) = self.v().audit_recent(100_000) else { return };
        self.ctx.probe("audit_records_scanned");
        for e in &entries {
            let txt = format!("{e:?}");
            if self.values.iter().any(|(v, _)| txt.contains(v.as_str())) {
                let class = "C14.value-in-audit-record".to_string();
                let detail = format!("after {after}: audit record contains a secret value: {}", short(&txt));
                self.violation(1, class, detail);
                return;
            }
        }
    }

    /// Compare one access decision with the model.
    /// Clause: "A requester other than the root identity can read, list, overwrite,
    /// rotate or delete a secret only while there is an unexpired, unrevoked grant of
    /// sufficient level from that requester, or from a group it belongs to within the
    /// configured distance" / "Granting requires admin level on the secret."
    #[allow(clippy::too_many_arguments)]
    fn judge(&mut self, op: &'static str, req: &str, sec: usize, need: u8, out: Outcome, t0: u64, t1: u64, mutating: bool) -> bool {
        let (pmax, hops_max) = self.m.perm(req, sec, t0, t1, Bound::Max, Hyp::default());
        let (pmin, _) = self.m.perm(req, sec, t0, t1, Bound::Min, Hyp::default());
        self.probes(op, req, sec, need, t0, t1, mutating, pmax, hops_max);
        if out == Outcome::Excluded {
            self.ctx.probe("excluded_rate_or_seal");
            return false;
        }
        let exists = self.m.exists[sec];
        match out {
            Outcome::Ok => {
                self.allowed_calls += 1;
                if req != Vault::ROOT {
                    self.ctx.probe("nonroot_call_allowed");
                }
                if req != Vault::ROOT && (!exists || pmax < need) {
                    let reason = if !exists && pmax < need && self.deleted_secs.contains(&sec) {
                        "deleted-secret"
                    } else if !exists && pmax < need {
                        "no-such-secret"
                    } else if pmax < need {
                        self.m.reason(req, sec, t0, t1, need)
                    } else {
                        // secret does not exist in the model but a grant does: cannot happen (delete kills grants)
                        "no-such-secret"
                    };
                    let who = if req.starts_with("team:") { "group" } else { "identity" };
                    let class = format!("C14.access-without-live-grant/{op}/{reason}");
                    let detail = format!(
                        "{op} by {who} {} on secret #{sec} succeeded; model: best live level {} (needs {}), reason {reason}, call window [{t0},{t1}] ns",
                        self.describe(req),
                        lvl_name(pmax),
                        lvl_name(need)
                    );
                    self.violation(0, class, detail);
                    return true;
                }
            },
            Outcome::Denied => {
                self.denied_calls += 1;
                self.ctx.probe("nonroot_call_denied");
                if exists && pmin >= need {
                    // the text promises no availability: observation only
                    // known cause: the vault's cleanup drops EVERY access edge of an (entity, secret)
                    // pair when one TTL entry of that pair expires, including permanent siblings
                    let dist = self.m.reach(req);
                    let sibling_expired = self.m.grants.iter().any(|g| {
                        g.sec == sec && dist.contains_key(&g.grantee) && g.exp.is_some_and(|(lo, _)| lo <= t1)
                    });
                    // second known cause: revoke_delegation(_cascading) removes EVERY access edge
                    // of the (child, secret) pairs of the record, whoever granted them
                    let deleg_revoked = self.deleg_revoked_pairs.iter().any(|(e, s)| *s == sec && dist.contains_key(e));
                    let why = if sibling_expired {
                        "expired-ttl-sibling-grant-of-same-pair"
                    } else if deleg_revoked {
                        "revoked-delegation-took-sibling-grants-of-same-pair"
                    } else {
                        "unexplained"
                    };
                    let pre = self.tainted.map_or(String::new(), |t| format!("{t}: "));
                    self.obs.insert(format!("{pre}over-deny/{op}/{why}"));
                    self.ctx.probe("over_deny_observed");
                    self.ctx.event(&format!("OBS over-deny {op} by {} on #{sec}: model certain level {}", short(req), lvl_name(pmin)));
                }
            },
            _ => {},
        }
        false
    }

    #[allow(clippy::too_many_arguments)]
    fn probes(&mut self, op: &'static str, req: &str, sec: usize, need: u8, t0: u64, t1: u64, mutating: bool, pmax: u8, hops_max: usize) {
        if req == Vault::ROOT {
            return;
        }
        let dist = self.m.reach(req);
        let mut at_expiry = false;
        let mut after_no_cleanup = false;
        for g in &self.m.grants {
            if g.sec != sec || g.dead.is_some() || !dist.contains_key(&g.grantee) {
                continue;
            }
            if let Some((lo, hi)) = g.exp {
                if t0 <= hi && t1 >= lo {
                    at_expiry = true;
                }
                if t0 >= hi && self.last_cleanup <= hi {
                    after_no_cleanup = true;
                }
            }
        }
        if at_expiry {
            self.ctx.probe("access_at_expiry_instant");
        }
        if after_no_cleanup {
            self.ctx.probe("access_after_expiry_no_cleanup");
            if mutating {
                self.ctx.probe("mutating_call_by_expired_holder");
            }
        }
        if pmax > 0 && hops_max == self.m.horizon && hops_max >= 2 {
            self.ctx.probe("group_at_max_distance");
        }
        // one hop beyond: a live grant sits on a group exactly horizon member-hops away
        if self.m.grants.iter().any(|g| {
            g.sec == sec && g.dead.is_none() && g.exp.map_or(true, |(lo, _)| t1 < lo) && dist.get(&g.grantee) == Some(&self.m.horizon)
        }) {
            self.ctx.probe("group_one_hop_beyond");
        }
        if self.revoked_pairs.iter().any(|(e, s)| *s == sec && dist.contains_key(e)) {
            self.ctx.probe("revoke_then_access");
        }
        if self.deleted_secs.contains(&sec) {
            self.ctx.probe("delete_then_access");
        }
        // a call that the entries of a taken-back delegation would have allowed, and that what
        // is left (nothing, or a lower level from another delegation / grant) does not
        if pmax < need
            && self.m.grants.iter().any(|g| {
                g.sec == sec
                    && g.rec.is_some()
                    && g.dead == Some("revoked")
                    && g.level >= need
                    && dist.contains_key(&g.grantee)
                    && self.deleg_revoked_pairs.contains(&(g.grantee.clone(), sec))
            })
        {
            self.ctx.probe("deleg_revoke_then_access");
            if pmax > 0 {
                self.ctx.probe("deleg_revoke_then_access_lower_level_left");
            }
        }
        // the requester's key is a near-duplicate of a principal that the model allows
        if let Some(orig) = self.names.alias_of.get(req) {
            let lo = if orig == Vault::ROOT { 3 } else { self.m.perm(orig, sec, t0, t1, Bound::Min, Hyp::default()).0 };
            if lo >= need && pmax < need && self.m.exists[sec] {
                self.ctx.probe("near_duplicate_of_allowed_principal_calls");
                if orig == Vault::ROOT {
                    self.ctx.probe("near_duplicate_of_root_calls");
                } else if self.m.reach(orig).len() > 1 && self.m.perm(orig, sec, t0, t1, Bound::Min, Hyp::default()).1 >= 2 {
                    self.ctx.probe("near_duplicate_of_group_member_calls");
                }
            }
        }
        if op == "grant" && pmax < 3 {
            self.ctx.probe("grant_by_non_admin");
        }
        if pmax == 0 && dist.len() > 1 && self.m.grants.iter().any(|g| g.sec == sec && g.dead.is_none()) {
            self.ctx.probe("member_without_grant");
        }
    }

    fn kill_grants(&mut self, pred: impl Fn(&MGrant) -> bool, why: &'static str) {
        for g in &mut self.m.grants {
            if g.dead.is_none() && pred(g) {
                g.dead = Some(why);
            }
        }
    }

    fn log_res<T>(&self, what: &str, r: &Result<T, VaultError>) {
        let s = match r {
            Ok(_) => "ok".to_string(),
            Err(e) => {
                // variant name only: messages may carry process-global ids
                let d = format!("{e:?}");
                format!("err {}", d.split('(').next().unwrap_or("?"))
            },
        };
        // identity keys may hold control / invisible characters: the log shows them escaped
        self.ctx.event(&format!("{} -> {s} @{}", what.escape_debug(), self.now()));
    }

    fn step(&mut self, i: usize, st: &Step) {
        let case: &'a Case = self.case;
        let cfg = &case.cfg;
        match st {
            Step::Set { who, sec, val, sz } => {
                let req = self.names.who(*who).to_string();
                let s = self.names.sec(*sec);
                let name = self.names.secrets[s].clone();
                let value = value_for(cfg, *val, *sz);
                if value.len() > MAX_VALUE {
                    self.ctx.probe("over_limit_value_offered");
                }
                self.values.extend(value_needles(&value));
                let t0 = self.now();
                let r = self.v().set(&req, &name, &value);
                let t1 = self.now();
                self.log_res(&format!("{i} set {req} #{s} len={}", value.len()), &r);
                if let Err(e) = &r {
                    self.check_error_text("set", e);
                    self.refused_values.insert(value.clone());
                }
                let out = classify(&r);
                self.settle_write("set", "set-create", &req, s, value, out, t0, t1);
                self.check_at_rest("set");
            },
            Step::Rotate { who, sec, val, sz } => {
                let req = self.names.who(*who).to_string();
                let s = self.names.sec(*sec);
                let name = self.names.secrets[s].clone();
                let value = value_for(cfg, *val, *sz);
                if value.len() > MAX_VALUE {
                    self.ctx.probe("over_limit_value_offered");
                }
                self.values.extend(value_needles(&value));
                let t0 = self.now();
                let r = self.v().rotate(&req, &name, &value);
                let t1 = self.now();
                self.log_res(&format!("{i} rotate {req} #{s} len={}", value.len()), &r);
                if let Err(e) = &r {
                    self.check_error_text("rotate", e);
                    self.refused_values.insert(value.clone());
                }
                let out = classify(&r);
                self.judge("rotate", &req, s, 2, out, t0, t1, true);
                if out == Outcome::Ok {
                    self.m.exists[s] = true;
                    self.m.value[s] = Some(value);
                    self.ctx.fp("rotate-ok");
                }
                self.check_at_rest("rotate");
            },
            Step::Get { who, sec } => {
                let req = self.names.who(*who).to_string();
                let s = self.names.sec(*sec);
                let name = self.names.secrets[s].clone();
                let t0 = self.now();
                let r = self.v().get(&req, &name);
                let t1 = self.now();
                self.log_res(&format!("{i} get {req} #{s}"), &r);
                if let Err(e) = &r {
                    self.check_error_text("get", e);
                }
                let out = classify(&r);
                self.judge("get", &req, s, 1, out, t0, t1, false);
                self.last_cleanup = t1;
                if let Ok(v) = &r {
                    self.ctx.fp("get-ok");
                    self.check_read_value(s, v);
                }
            },
            Step::GetVersion { who, sec } => {
                let req = self.names.who(*who).to_string();
                let s = self.names.sec(*sec);
                let name = self.names.secrets[s].clone();
                let t0 = self.now();
                let r = self.v().get_version(&req, &name, 1);
                let t1 = self.now();
                self.log_res(&format!("{i} get_version {req} #{s}"), &r);
                if let Err(e) = &r {
                    self.check_error_text("get_version", e);
                }
                if r.is_ok() && req != Vault::ROOT {
                    let (pmax, _) = self.m.perm(&req, s, t0, t1, Bound::Max, Hyp::default());
                    if pmax < 1 || !self.m.exists[s] {
                        let reason = if self.m.exists[s] { self.m.reason(&req, s, t0, t1, 1) } else { "no-such-secret" };
                        let pre = self.tainted.map_or(String::new(), |t| format!("{t}: "));
                        self.obs.insert(format!("{pre}outside-quantifier: get_version succeeded without a live grant/{reason}"));
                        self.ctx.event(&format!("OBS get_version by {} on #{s} succeeded without a live grant ({reason})", short(&req)));
                    }
                }
            },
            Step::List { who, sec, pat } => {
                let req = self.names.who(*who).to_string();
                let s = self.names.sec(*sec);
                let pattern = match pat % 3 {
                    0 => "*".to_string(),
                    1 => {
                        let n = &self.names.secrets[s];
                        match n.find('/') {
                            Some(ix) => format!("{}*", &n[..=ix]),
                            None => "*".to_string(),
                        }
                    },
                    _ => self.names.secrets[s].clone(),
                };
                let t0 = self.now();
                let r = self.v().list(&req, &pattern);
                let t1 = self.now();
                self.log_res(&format!("{i} list {req} pat{}#{s}", pat % 3), &r);
                if let Err(e) = &r {
                    self.check_error_text("list", e);
                }
                match &r {
                    Ok(listed) => {
                        self.ctx.fp("list-ok");
                        let mut listed_slots = BTreeSet::new();
                        for n in listed {
                            match self.names.secrets.iter().position(|x| x == n) {
                                Some(slot) => {
                                    listed_slots.insert(slot);
                                    // every listed name is one read-level access decision
                                    self.judge("list", &req, slot, 1, Outcome::Ok, t0, t1, false);
                                },
                                None => {
                                    self.obs.insert("list returned a name that was never stored".into());
                                },
                            }
                        }
                        // names the model would allow but that are missing: over-deny observation
                        for slot in 0..self.names.secrets.len() {
                            let n = self.names.secrets[slot].clone();
                            let matches = match pat % 3 {
                                0 => true,
                                1 => pattern == "*" || n.starts_with(&pattern[..pattern.len() - 1]),
                                _ => n == pattern,
                            };
                            if matches && self.m.exists[slot] && !listed_slots.contains(&slot) {
                                let (pmin, _) = self.m.perm(&req, slot, t0, t1, Bound::Min, Hyp::default());
                                if pmin >= 1 {
                                    let dist = self.m.reach(&req);
                                    let sib = self.m.grants.iter().any(|g| g.sec == slot && dist.contains_key(&g.grantee) && g.exp.is_some_and(|(lo, _)| lo <= t1));
                                    let pre = self.tainted.map_or(String::new(), |t| format!("{t}: "));
                                    let dr = self.deleg_revoked_pairs.iter().any(|(e, s)| *s == slot && dist.contains_key(e));
                                    let why = if sib {
                                        "expired-ttl-sibling-grant-of-same-pair"
                                    } else if dr {
                                        "revoked-delegation-took-sibling-grants-of-same-pair"
                                    } else {
                                        "unexplained"
                                    };
                                    self.obs.insert(format!("{pre}over-deny/list/{why}"));
                                } else {
                                    self.denied_calls += 1;
                                    // a refused listing is an access decision too: feed the probes
                                    let (pmax, hm) = self.m.perm(&req, slot, t0, t1, Bound::Max, Hyp::default());
                                    self.probes("list", &req, slot, 1, t0, t1, false, pmax, hm);
                                }
                            }
                        }
                    },
                    Err(_) => {
                        if classify(&r) == Outcome::Excluded {
                            self.ctx.probe("excluded_rate_or_seal");
                        }
                    },
                }
                self.last_cleanup = t1;
            },
            Step::Delete { who, sec } => {
                let req = self.names.who(*who).to_string();
                let s = self.names.sec(*sec);
                let name = self.names.secrets[s].clone();
                let t0 = self.now();
                let r = self.v().delete(&req, &name);
                let t1 = self.now();
                self.log_res(&format!("{i} delete {req} #{s}"), &r);
                if let Err(e) = &r {
                    self.check_error_text("delete", e);
                }
                let out = classify(&r);
                self.judge("delete", &req, s, 3, out, t0, t1, true);
                if out == Outcome::Ok {
                    // "revoking, expiring or deleting removes the ability at once"
                    self.m.exists[s] = false;
                    self.m.value[s] = None;
                    self.kill_grants(|g| g.sec == s, "deleted-secret");
                    self.deleted_secs.insert(s);
                    self.ctx.fp("delete-ok");
                }
                self.check_at_rest("delete");
            },
            Step::Grant { who, to, sec } => self.do_grant(i, *who, *to, *sec, 3, None, true),
            Step::GrantPerm { who, to, sec, lvl } => self.do_grant(i, *who, *to, *sec, (*lvl).clamp(1, 3), None, false),
            Step::GrantTtl { who, to, sec, lvl, ttl_ms } => self.do_grant(i, *who, *to, *sec, (*lvl).clamp(1, 3), Some(*ttl_ms), false),
            Step::Revoke { who, to, sec } => {
                let req = self.names.who(*who).to_string();
                let ent = self.names.nonroot(*to).to_string();
                let s = self.names.sec(*sec);
                let name = self.names.secrets[s].clone();
                let t0 = self.now();
                let r = self.v().revoke(&req, &ent, &name);
                let t1 = self.now();
                self.log_res(&format!("{i} revoke {req} {ent} #{s}"), &r);
                if let Err(e) = &r {
                    self.check_error_text("revoke", e);
                }
                let out = classify(&r);
                // revoking is an admin act on the secret (Permission docs: Admin: delete(), grant(), revoke())
                self.judge("revoke", &req, s, 3, out, t0, t1, true);
                if out == Outcome::Ok {
                    let had = self.m.grants.iter().any(|g| g.dead.is_none() && g.sec == s && g.grantee == ent);
                    self.kill_grants(|g| g.sec == s && g.grantee == ent, "revoked");
                    if had {
                        self.revoked_pairs.insert((ent.clone(), s));
                        self.ctx.fp("revoke-ok");
                    }
                }
                self.check_at_rest("revoke");
            },
            Step::Delegate { who, to, sec, lvl, ttl_ms, more } => {
                let parent = self.names.who(*who).to_string();
                let child = self.names.nonroot(*to).to_string();
                let mut all = vec![*sec];
                all.extend(more.iter().copied());
                // a delegation on a secret that does not exist has nothing to act on: such
                // entries are left out of the list; an empty list is a no-op
                let list: Vec<usize> = self.slots(&all).into_iter().filter(|s| self.m.exists[*s]).collect();
                if list.is_empty() || parent == child {
                    return;
                }
                let names: Vec<String> = list.iter().map(|s| self.names.secrets[*s].clone()).collect();
                let name_refs: Vec<&str> = names.iter().map(String::as_str).collect();
                let lvl = (*lvl).clamp(1, 3);
                let ttl = ttl_ms.map(|ms| Duration::from_millis(u64::from(ms)));
                let t0 = self.now();
                if list.len() >= 2 {
                    self.ctx.probe("multi_secret_delegate");
                    if parent != Vault::ROOT {
                        let lv: Vec<u8> = list.iter().map(|s| self.m.perm(&parent, *s, t0, t0, Bound::Max, Hyp::default()).0).collect();
                        let (lo, hi) = (*lv.iter().min().unwrap_or(&0), *lv.iter().max().unwrap_or(&0));
                        if lo != hi && lo > 0 {
                            self.ctx.probe("multi_delegate_mixed_levels");
                        }
                        if lo < lvl && lvl <= hi {
                            self.ctx.probe("multi_delegate_above_weakest_level");
                        }
                    }
                }
                let r = self.v().delegate(&parent, &child, &name_refs, perm_of(lvl), ttl);
                let t1 = self.now();
                let shown: Vec<String> = list.iter().map(|s| format!("#{s}")).collect();
                self.log_res(&format!("{i} delegate {parent} {child} [{}] {} ttl={ttl_ms:?}", shown.join(","), lvl_name(lvl)), &r);
                if let Err(e) = &r {
                    self.check_error_text("delegate", e);
                }
                let out = classify(&r);
                // delegation.rs / Vault::delegate docs: "The parent must have at least the
                // requested permission on each secret" — a delegation hands on what the
                // parent holds; it needs that level, not Admin. The access model judges every
                // (identity, secret) pair of the list separately: a successful call is one
                // grant decision per listed secret.
                match out {
                    Outcome::Ok => {
                        for s in &list {
                            self.judge("delegate", &parent, *s, lvl, Outcome::Ok, t0, t1, true);
                        }
                    },
                    Outcome::Denied => {
                        let pairs: Vec<(usize, u8)> = list.iter().map(|s| (*s, lvl)).collect();
                        self.judge_list_denied("delegate", &parent, &pairs, t0, t1, true);
                    },
                    _ => {
                        self.judge("delegate", &parent, list[0], lvl, out, t0, t1, true);
                    },
                }
                if out == Outcome::Ok {
                    let exp = ttl_ms.map(|ms| (t0 + u64::from(ms) * 1_000_000, t1 + u64::from(ms) * 1_000_000));
                    let ttl_idx = exp.map(|w| {
                        self.ttl_windows.push(w);
                        self.ttl_windows.len() - 1
                    });
                    // "The child receives min(parent permission, requested permission)": the
                    // returned record states that ceiling (it can be lower than requested when
                    // the parent's own grant expires while the call is running)
                    let reported = match r.as_ref().map(|rec| rec.max_permission) {
                        Ok(Permission::Admin) => 3,
                        Ok(Permission::Write) => 2,
                        _ => 1,
                    };
                    let level = lvl.min(reported);
                    // the record of this call; the vault keeps one record per (parent, child):
                    // an earlier one between the same two is replaced (its entries stay in the
                    // model: nothing revoked them)
                    let rec_id = self.m.next_rec;
                    self.m.next_rec += 1;
                    self.m.rec_parent.push(parent.clone());
                    if self.m.records.insert((parent.clone(), child.clone()), MRecord { id: rec_id, secs: list.clone() }).is_some() {
                        self.ctx.probe("delegation_record_replaced");
                    }
                    // another record (any parent, live or stale) to the same child names one of
                    // these secrets
                    let overlapping = self
                        .m
                        .records
                        .iter()
                        .filter(|((p, c), r)| c == &child && p != &parent && r.secs.iter().any(|s| list.contains(s)))
                        .count();
                    if overlapping > 0 {
                        self.ctx.probe("several_delegations_one_child_secret");
                        let lv: BTreeSet<u8> = self
                            .m
                            .grants
                            .iter()
                            .filter(|g| g.dead.is_none() && g.rec.is_some() && g.grantee == child && list.contains(&g.sec))
                            .map(|g| g.level)
                            .collect();
                        if lv.iter().any(|l| *l != level) {
                            self.ctx.probe("several_delegations_different_levels");
                        }
                        // ... and one of those records is stale: it was made for an earlier
                        // secret of the same name, deleted since
                        let stale = self.m.records.iter().any(|((p, c), r)| {
                            c == &child
                                && p != &parent
                                && r.secs.iter().any(|s| {
                                    list.contains(s) && self.m.grants.iter().any(|g| g.rec == Some(r.id) && g.sec == *s && g.dead == Some("deleted-secret"))
                                })
                        });
                        if stale {
                            self.ctx.probe("redelegated_after_recreate");
                        }
                    }
                    for s in &list {
                        // revocation state of an earlier grant does not touch the new one
                        self.revoked_pairs.remove(&(child.clone(), *s));
                        self.m.grants.push(MGrant { grantee: child.clone(), sec: *s, level, exp, dead: None, ttl_idx, rec: Some(rec_id) });
                    }
                    self.ctx.fp(if list.len() >= 2 { "delegate-multi-ok" } else { "delegate-ok" });
                }
                self.check_at_rest("delegate");
            },
            Step::RevokeDeleg { parent, child, cascade } => {
                // "revoking, expiring or deleting removes the ability at once": taking a
                // delegation back is revoking the grants that delegation made. The calls take no
                // requester (whoever holds the vault handle may call them): there is no access
                // decision to judge here, only the effect on later decisions.
                let parent = self.names.who(*parent).to_string();
                let child = self.names.nonroot(*child).to_string();
                if parent == child {
                    return;
                }
                let (pd, cd) = (short(&parent), short(&child));
                if *cascade {
                    let r = self.v().revoke_delegation_cascading(&parent, &child);
                    self.log_res(&format!("{i} revoke_delegation_cascading {pd} {cd}"), &r);
                    if let Err(e) = &r {
                        self.check_error_text("revoke_delegation", e);
                    }
                    if let Ok(real) = &r {
                        // documented: "Revoke a delegation and all transitive sub-delegations":
                        // the record parent -> child, then every record whose parent is a
                        // child reached so far
                        let mut gone: Vec<((String, String), MRecord)> = Vec::new();
                        if let Some(rec) = self.m.records.remove(&(parent.clone(), child.clone())) {
                            gone.push(((parent.clone(), child.clone()), rec));
                        }
                        let mut queue = VecDeque::from([child.clone()]);
                        while let Some(cur) = queue.pop_front() {
                            let keys: Vec<(String, String)> = self.m.records.keys().filter(|(p, _)| p == &cur).cloned().collect();
                            for k in keys {
                                if let Some(rec) = self.m.records.remove(&k) {
                                    queue.push_back(k.1.clone());
                                    gone.push((k, rec));
                                }
                            }
                        }
                        let mut a: Vec<(String, String)> = gone.iter().map(|(k, _)| k.clone()).collect();
                        let mut b: Vec<(String, String)> = real.iter().map(|r| (r.parent.clone(), r.child.clone())).collect();
                        a.sort();
                        b.sort();
                        if a != b {
                            self.obs.insert("revoke_delegation_cascading reported other records than the model's delegation tree".into());
                            self.ctx.event(&format!("OBS cascading: model {} records, vault {}", a.len(), b.len()));
                        }
                        if gone.len() >= 2 {
                            self.ctx.probe("cascading_revoke_of_a_chain");
                        }
                        if !gone.is_empty() {
                            self.ctx.fp("deleg-revoke-casc-ok");
                        }
                        for ((_, c), rec) in gone {
                            self.settle_deleg_revoked(&c, &rec);
                        }
                    }
                } else {
                    let r = self.v().revoke_delegation(&parent, &child);
                    self.log_res(&format!("{i} revoke_delegation {pd} {cd}"), &r);
                    if let Err(e) = &r {
                        self.check_error_text("revoke_delegation", e);
                    }
                    match &r {
                        Ok(real_secs) => match self.m.records.remove(&(parent.clone(), child.clone())) {
                            Some(rec) => {
                                let mut a: Vec<&str> = rec.secs.iter().map(|s| self.names.secrets[*s].as_str()).collect();
                                let mut b: Vec<&str> = real_secs.iter().map(String::as_str).collect();
                                a.sort_unstable();
                                b.sort_unstable();
                                if a != b {
                                    self.obs.insert("revoke_delegation reported other secrets than the delegation record of the model".into());
                                }
                                self.ctx.fp("deleg-revoke-ok");
                                self.settle_deleg_revoked(&child, &rec);
                            },
                            None => {
                                self.obs.insert("revoke_delegation succeeded on a delegation the model does not know".into());
                            },
                        },
                        Err(VaultError::NotFound(_)) => {
                            if self.m.records.contains_key(&(parent.clone(), child.clone())) {
                                self.obs.insert("revoke_delegation: NotFound for a delegation the model holds".into());
                            }
                        },
                        Err(_) => {
                            // the record is taken out of the manager before the edges are removed:
                            // a failure half-way leaves no record and revokes nothing for the model
                            self.m.records.remove(&(parent.clone(), child.clone()));
                            self.obs.insert("revoke_delegation failed half-way".into());
                        },
                    }
                }
                self.check_at_rest("revoke_delegation");
            },
            Step::BatchGet { who, secs } => {
                let req = self.names.who(*who).to_string();
                let list = self.slots(secs);
                if list.is_empty() {
                    return;
                }
                let names: Vec<String> = list.iter().map(|s| self.names.secrets[*s].clone()).collect();
                let name_refs: Vec<&str> = names.iter().map(String::as_str).collect();
                let t0 = self.now();
                let r = self.v().batch_get(&req, &name_refs);
                let t1 = self.now();
                let shown: Vec<String> = list.iter().map(|s| format!("#{s}")).collect();
                self.log_res(&format!("{i} batch_get {req} [{}]", shown.join(",")), &r);
                match &r {
                    Ok(results) => {
                        let (mut n_ok, mut n_denied) = (0, 0);
                        for (k, (key, res)) in results.iter().enumerate() {
                            // results come back in the order of the request
                            let Some(s) = list.get(k).copied().filter(|s| &self.names.secrets[*s] == key) else {
                                self.obs.insert("batch_get returned a key that was not asked for at that position".into());
                                continue;
                            };
                            self.log_res(&format!("{i}   batch_get {req} #{s}"), res);
                            if let Err(e) = res {
                                self.check_error_text("batch_get", e);
                            }
                            let out = classify(res);
                            match out {
                                Outcome::Ok => n_ok += 1,
                                Outcome::Denied => n_denied += 1,
                                _ => {},
                            }
                            // every entry is one read decision about its own (identity, secret) pair
                            self.judge("batch_get", &req, s, 1, out, t0, t1, false);
                            if let Ok(v) = res {
                                self.check_read_value(s, v);
                            }
                        }
                        if n_ok > 0 && n_denied > 0 && req != Vault::ROOT {
                            self.ctx.probe("batch_get_mixed_allow_deny");
                        }
                        self.ctx.fp("batch-get-ok");
                    },
                    Err(e) => {
                        self.check_error_text("batch_get", e);
                        if classify(&r) == Outcome::Excluded {
                            self.ctx.probe("excluded_rate_or_seal");
                        }
                    },
                }
                self.last_cleanup = t1;
            },
            Step::BatchSet { who, secs, val, sz, detailed } => {
                let req = self.names.who(*who).to_string();
                let list = self.slots(secs);
                if list.is_empty() {
                    return;
                }
                let names: Vec<String> = list.iter().map(|s| self.names.secrets[*s].clone()).collect();
                // one value per entry, so that what was written where can be told apart
                // (the size class `sz` goes to one entry, the others take an ordinary size: an
                // over-limit value then fails one entry of the batch, not all)
                let special = *val as usize % list.len();
                let vals: Vec<String> =
                    (0..list.len()).map(|k| value_for(cfg, val.wrapping_add(k as u32), if k == special { *sz } else { *sz % 5 })).collect();
                for v in &vals {
                    if v.len() > MAX_VALUE {
                        self.ctx.probe("over_limit_value_offered");
                    }
                    self.values.extend(value_needles(v));
                }
                let entries: Vec<(&str, &str)> = names.iter().zip(&vals).map(|(n, v)| (n.as_str(), v.as_str())).collect();
                let shown: Vec<String> = list.iter().map(|s| format!("#{s}")).collect();
                let t0 = self.now();
                // per entry: Some(outcome) once it is known what the vault decided about it
                let mut outs: Vec<Option<Outcome>> = vec![None; list.len()];
                let mut whole_denied = false;
                if *detailed {
                    let r = self.v().batch_set_detailed(&req, &entries);
                    self.log_res(&format!("{i} batch_set_detailed {req} [{}] len={}", shown.join(","), vals[special].len()), &r);
                    match &r {
                        Ok(res) => {
                            for (k, n) in names.iter().enumerate() {
                                match res.failed.iter().find(|(key, _)| key == n) {
                                    Some((_, e)) => {
                                        self.check_error_text("batch_set", e);
                                        let er: Result<(), VaultError> = Err(e.clone());
                                        self.log_res(&format!("{i}   batch_set {req} #{}", list[k]), &er);
                                        outs[k] = Some(classify(&er));
                                    },
                                    None => outs[k] = Some(Outcome::Ok),
                                }
                            }
                        },
                        Err(e) => {
                            self.check_error_text("batch_set", e);
                            let o = classify(&r);
                            outs.iter_mut().for_each(|x| *x = Some(o));
                        },
                    }
                } else {
                    let r = self.v().batch_set(&req, &entries);
                    self.log_res(&format!("{i} batch_set {req} [{}] len={}", shown.join(","), vals[special].len()), &r);
                    match &r {
                        Ok(()) => outs.iter_mut().for_each(|x| *x = Some(Outcome::Ok)),
                        Err(e) => {
                            self.check_error_text("batch_set", e);
                            whole_denied = classify(&r) == Outcome::Denied;
                            if classify(&r) == Outcome::Excluded {
                                self.ctx.probe("excluded_rate_or_seal");
                            }
                        },
                    }
                }
                let t1 = self.now();
                if outs.iter().any(Option::is_none) {
                    // batch_set stops at the first entry that fails ("partial failure is possible")
                    // and processes the entries in an order of its own: which entries were written
                    // is read back by root (a harness read; it runs the vault's cleanup pass)
                    for k in 0..list.len() {
                        let cur = self.v().get(Vault::ROOT, &names[k]).ok();
                        // (an offered value equal to the one the secret held before the call —
                        // possible with the 1-byte values of naming mode 1 — tells nothing:
                        // written or not, the state is the same, and the entry stays undecided)
                        if cur.as_deref() == Some(vals[k].as_str()) && self.m.value[list[k]].as_deref() != Some(vals[k].as_str()) {
                            outs[k] = Some(Outcome::Ok);
                        }
                    }
                    self.last_cleanup = self.now();
                    self.ctx.probe("batch_set_partial_failure_read_back");
                }
                let (mut n_ok, mut n_denied) = (0, 0);
                let mut unexplained: Vec<(usize, u8)> = Vec::new();
                for k in 0..list.len() {
                    match outs[k] {
                        Some(out) => {
                            match out {
                                Outcome::Ok => n_ok += 1,
                                Outcome::Denied => n_denied += 1,
                                _ => {},
                            }
                            self.settle_write("batch_set", "batch_set-create", &req, list[k], vals[k].clone(), out, t0, t1);
                        },
                        None => {
                            // not written; the single error of the call is about one of these entries
                            self.refused_values.insert(vals[k].clone());
                            unexplained.push((list[k], 2));
                        },
                    }
                    if self.viols.iter().any(|(p, _)| *p == 0) {
                        break;
                    }
                }
                if whole_denied && !unexplained.is_empty() {
                    n_denied += 1;
                    if unexplained.iter().any(|(s, _)| !self.m.exists[*s]) && req != Vault::ROOT {
                        // creating is reserved to root: that explains the refusal
                        self.denied_calls += 1;
                    } else {
                        self.judge_list_denied("batch_set", &req, &unexplained, t0, t1, true);
                    }
                }
                if n_ok > 0 && n_denied > 0 && req != Vault::ROOT {
                    self.ctx.probe("batch_set_mixed_allow_deny");
                }
                if n_ok > 0 {
                    self.ctx.fp("batch-set-ok");
                }
                self.check_at_rest("batch_set");
            },
            Step::Member { child, group, on } => {
                let Some(g) = self.names.group(*group).map(str::to_string) else { return };
                let c = self.names.nonroot(*child).to_string();
                if c == g {
                    return;
                }
                self.set_member(&c, &g, *on);
                self.ctx.event(&format!("{i} member {} -> {} {}", short(&c), short(&g), if *on { "add" } else { "remove" }));
                self.ctx.fp(if *on { "member+" } else { "member-" });
            },
            Step::Advance { g, rel, off_ns } => {
                if self.ttl_windows.is_empty() {
                    return;
                }
                let (lo, hi) = self.ttl_windows[*g as usize % self.ttl_windows.len()];
                let off = u64::from(*off_ns);
                let target = match rel {
                    // the next call ends strictly before the earliest possible expiry
                    Rel::Before => lo.saturating_sub(2_000 + off),
                    // the next call straddles the expiry window
                    Rel::At => (lo + off % (hi - lo + 600)).saturating_sub(300),
                    // the next call starts strictly after the latest possible expiry
                    Rel::After => hi + 1 + off,
                };
                let now = self.now();
                if target > now {
                    self.ctx.advance_ns(target - now);
                    self.ctx.event(&format!("{i} advance {rel:?} ttl#{} -> @{target}", *g as usize % self.ttl_windows.len()));
                }
            },
            Step::AdvanceMs(ms) => {
                self.ctx.advance_ms(u64::from(*ms));
                self.ctx.event(&format!("{i} advance {ms}ms"));
            },
            Step::Snapshot => {
                self.check_at_rest("snapshot-step");
                self.check_live_records("snapshot-step");
                self.check_audit("snapshot-step");
                self.ctx.fp("snapshot");
            },
            Step::WallStep { ms } => {
                // outside the quantifier: from here on nothing is a verdict
                self.tainted = Some(match self.tainted {
                    Some("after-reload") | Some("after-wall-step+reload") => "after-wall-step+reload",
                    _ => "after-wall-step",
                });
                self.ctx.step_wall_ms(i64::from(*ms));
                self.ctx.event(&format!("{i} wall step {ms}ms"));
                self.ctx.probe("obs_wall_step");
            },
            Step::Reload => {
                self.tainted = Some(match self.tainted {
                    Some("after-wall-step") | Some("after-wall-step+reload") => "after-wall-step+reload",
                    _ => "after-reload",
                });
                self.vault = None;
                match Vault::new(b"c14-master-key", self.graph.clone(), self.store.clone(), Self::vault_config(cfg)) {
                    Ok(v) => self.vault = Some(v),
                    Err(e) => {
                        self.obs.insert(format!("reload failed: {e}"));
                    },
                }
                // Vault::new runs its own cleanup pass
                self.last_cleanup = self.now();
                self.ctx.event(&format!("{i} reload"));
                self.ctx.probe("obs_reload");
            },
        }
    }

    /// The delegation record `rec` (to `child`) was taken back: its entries — and only its
    /// entries — are revoked. What other records, or plain grants, give the child stays in
    /// force in the model (the vault removes more: every access edge of the pair; that is an
    /// over-deny, which the text does not forbid).
    fn settle_deleg_revoked(&mut self, child: &str, rec: &MRecord) {
        let sibling = self.m.records.iter().any(|((_, c), r)| c == child && r.secs.iter().any(|s| rec.secs.contains(s)));
        if sibling {
            self.ctx.probe("deleg_revoke_with_sibling_record");
        }
        for s in &rec.secs {
            let mine = self.m.grants.iter().filter(|g| g.rec == Some(rec.id) && g.sec == *s && g.dead.is_none()).map(|g| g.level).max();
            let others = self
                .m
                .grants
                .iter()
                .filter(|g| g.rec.is_some() && g.rec != Some(rec.id) && g.sec == *s && g.grantee == child && g.dead.is_none())
                .map(|g| g.level)
                .max();
            if let (Some(a), Some(b)) = (mine, others) {
                if a > b {
                    self.ctx.probe("deleg_revoke_of_the_higher_of_two");
                }
            }
            // (also when the record's own entries were dead already — a stale record: the vault
            // removes the pair's edges all the same)
            self.deleg_revoked_pairs.insert((child.to_string(), *s));
        }
        let id = rec.id;
        self.kill_grants(|g| g.rec == Some(id), "revoked");
        // entries of an earlier delegation between the same two, whose record this one
        // replaced: the call does not name their secrets as revoked, the model keeps them
        // (candidate finding, reported as an observation: they cannot be taken back through
        // revoke_delegation any more, only through revoke / delete / expiry)
        let parent = self.m.rec_parent.get(id as usize).cloned().unwrap_or_default();
        let left = self.m.grants.iter().any(|g| {
            g.dead.is_none() && g.grantee == child && g.rec.is_some_and(|r| r != id && self.m.rec_parent.get(r as usize) == Some(&parent)) && !rec.secs.contains(&g.sec)
        });
        if left {
            self.ctx.probe("replaced_delegation_outlives_revoke_delegation");
            self.obs.insert("revoke_delegation leaves the grants of an earlier, replaced delegation parent->child (other secrets) in force".into());
        }
    }

    /// slots of a step's secret list, in order, without repetitions
    fn slots(&self, secs: &[u8]) -> Vec<usize> {
        let mut out: Vec<usize> = Vec::new();
        for x in secs {
            let s = self.names.sec(*x);
            if !out.contains(&s) {
                out.push(s);
            }
        }
        out
    }

    /// A value handed out by get / batch_get that is not the value the model holds.
    fn check_read_value(&mut self, s: usize, v: &str) {
        if self.m.value[s].as_deref() != Some(v) {
            if self.refused_values.contains(v) {
                // "can ... overwrite, rotate ... only while there is a ... grant": a refused write took effect
                self.violation(
                    0,
                    "C14.refused-write-took-effect".to_string(),
                    format!("get of secret #{s} returned the value of a set/rotate call that the vault refused"),
                );
            } else {
                self.obs.insert("value-mismatch-on-get (outside the property text)".into());
            }
        }
    }

    /// One write decision of set / batch_set about the pair (req, secret #s).
    #[allow(clippy::too_many_arguments)]
    fn settle_write(&mut self, op: &'static str, create_op: &'static str, req: &str, s: usize, value: String, out: Outcome, t0: u64, t1: u64) {
        if out != Outcome::Ok {
            self.refused_values.insert(value.clone());
        }
        // overwrite needs Write; creating is reserved to root (no grant can exist yet)
        let bad = if self.m.exists[s] {
            self.judge(op, req, s, 2, out, t0, t1, true)
        } else if out == Outcome::Ok && req != Vault::ROOT {
            let reason = if self.deleted_secs.contains(&s) { "deleted-secret" } else { "no-such-secret" };
            self.violation(
                0,
                format!("C14.access-without-live-grant/{create_op}/{reason}"),
                format!("{op} by {} created secret #{s} although no grant can exist for it", self.describe(req)),
            );
            true
        } else {
            if self.deleted_secs.contains(&s) && req != Vault::ROOT {
                self.ctx.probe("delete_then_access");
            }
            false
        };
        if out == Outcome::Ok {
            self.m.exists[s] = true;
            self.m.value[s] = Some(value);
            if !bad {
                self.ctx.fp("set-ok");
            }
        }
    }

    /// A call over a LIST of secrets was refused as a whole. The refusal is an access
    /// decision about at least one listed pair: it is explained as soon as the model does
    /// not certainly allow one of them; only when the model certainly allows every listed
    /// pair is it an over-deny (observation, see `judge`).
    fn judge_list_denied(&mut self, op: &'static str, req: &str, pairs: &[(usize, u8)], t0: u64, t1: u64, mutating: bool) {
        let Some(first) = pairs.first().copied() else { return };
        let explained = pairs
            .iter()
            .copied()
            .find(|(s, need)| !self.m.exists[*s] || self.m.perm(req, *s, t0, t1, Bound::Min, Hyp::default()).0 < *need);
        // certainly allowed on every pair: report the over-deny on the pair that carries a
        // known cause (an expired TTL sibling grant of the same pair, a taken-back delegation
        // record that named the pair), if one does
        let dist = self.m.reach(req);
        let with_sibling = pairs
            .iter()
            .copied()
            .find(|(s, _)| {
                self.m.grants.iter().any(|g| g.sec == *s && dist.contains_key(&g.grantee) && g.exp.is_some_and(|(lo, _)| lo <= t1))
                    || self.deleg_revoked_pairs.iter().any(|(e, x)| x == s && dist.contains_key(e))
            });
        let (s, need) = explained.or(with_sibling).unwrap_or(first);
        self.judge(op, req, s, need, Outcome::Denied, t0, t1, mutating);
    }

    #[allow(clippy::too_many_arguments)]
    fn do_grant(&mut self, i: usize, who: u8, to: u8, sec: u8, lvl: u8, ttl_ms: Option<u32>, plain: bool) {
        let req = self.names.who(who).to_string();
        let ent = self.names.nonroot(to).to_string();
        let s = self.names.sec(sec);
        let name = self.names.secrets[s].clone();
        let t0 = self.now();
        let r = if plain {
            self.v().grant(&req, &ent, &name)
        } else if let Some(ms) = ttl_ms {
            self.v().grant_with_ttl(&req, &ent, &name, perm_of(lvl), Duration::from_millis(u64::from(ms)))
        } else {
            self.v().grant_with_permission(&req, &ent, &name, perm_of(lvl))
        };
        let t1 = self.now();
        self.log_res(&format!("{i} grant {req} -> {ent} #{s} {} ttl={ttl_ms:?}", lvl_name(lvl)), &r);
        if let Err(e) = &r {
            self.check_error_text("grant", e);
        }
        let out = classify(&r);
        // "Granting requires admin level on the secret."
        self.judge("grant", &req, s, 3, out, t0, t1, true);
        if out == Outcome::Ok {
            let exp = ttl_ms.map(|ms| (t0 + u64::from(ms) * 1_000_000, t1 + u64::from(ms) * 1_000_000));
            let ttl_idx = exp.map(|w| {
                self.ttl_windows.push(w);
                self.ttl_windows.len() - 1
            });
            self.revoked_pairs.remove(&(ent.clone(), s));
            self.m.grants.push(MGrant { grantee: ent, sec: s, level: lvl, exp, dead: None, ttl_idx, rec: None });
            self.ctx.fp(if ttl_ms.is_some() { "grant-ttl-ok" } else { "grant-ok" });
        }
        self.check_at_rest("grant");
    }
}

fn run_case(case: &Case, ctx: &Arc<RunCtx>) -> RunOut {
    let mut out = RunOut::default();
    let names = Names::new(&case.cfg);
    let store = TensorStore::new();
    let graph = Arc::new(GraphEngine::with_store(store.clone()));
    let vault = match Vault::new(b"c14-master-key", graph.clone(), store.clone(), Run::vault_config(&case.cfg)) {
        Ok(v) => v,
        Err(e) => {
            out.harness_error = Some(format!("Vault::new failed: {e}"));
            return out;
        },
    };
    let n_sec = names.secrets.len();
    let mut name_needles = Vec::new();
    let mut ns_needles = Vec::new();
    if case.cfg.name_mode == 0 {
        for n in &names.secrets {
            name_needles.push((n.clone(), "name"));
            // the part after the namespace is the name proper (24 random characters):
            // a record that holds it without the prefix holds the name as well
            if let Some(i) = n.find('/') {
                name_needles.push((n[i + 1..].to_string(), "name"));
            }
        }
        let mut seen = BTreeSet::new();
        for ns in &names.sec_ns {
            if seen.insert(ns.clone()) {
                ns_needles.push((ns.clone(), "namespace"));
            }
        }
    }
    let mut run = Run {
        ctx,
        case,
        names,
        store,
        graph,
        vault: Some(vault),
        m: Model {
            exists: vec![false; n_sec],
            value: vec![None; n_sec],
            grants: Vec::new(),
            members: BTreeSet::new(),
            records: BTreeMap::new(),
            next_rec: 0,
            rec_parent: Vec::new(),
            admin_limit: case.cfg.admin_limit as usize,
            write_limit: case.cfg.write_limit as usize,
            horizon: case.cfg.horizon as usize,
        },
        values: Vec::new(),
        refused_values: BTreeSet::new(),
        name_needles,
        ns_needles,
        ttl_windows: Vec::new(),
        last_cleanup: 0,
        tainted: None,
        revoked_pairs: BTreeSet::new(),
        deleg_revoked_pairs: BTreeSet::new(),
        deleted_secs: BTreeSet::new(),
        viols: Vec::new(),
        obs: BTreeSet::new(),
        err_leak_checked: 0,
        ns_seen: false,
        allowed_calls: 0,
        denied_calls: 0,
    };
    ctx.fp(&format!("mode{} h{} a{} w{}", case.cfg.name_mode, case.cfg.horizon, case.cfg.admin_limit, case.cfg.write_limit));
    // scanner vacuity guard: an entity key stored in clear by the access graph must be found
    if case.cfg.name_mode == 0 {
        let probe_key = format!("team:{}", "Q".repeat(30));
        let _ = run.ent_node(&probe_key);
        let needle = vec![("Q".repeat(30), "guard")];
        match run.store.snapshot_bytes() {
            Ok(img) => {
                if scan_image(&img, &needle).is_none() {
                    out.harness_error = Some("at-rest scanner cannot find a string known to be stored in clear: the check would be vacuous".into());
                    return out;
                }
            },
            Err(e) => {
                out.harness_error = Some(format!("snapshot_bytes: {e}"));
                return out;
            },
        }
    }
    for (i, st) in case.steps.iter().enumerate() {
        if run.vault.is_none() {
            break;
        }
        run.step(i, st);
        // stop at the first access violation (priority 0): later decisions build on a broken state
        if run.viols.iter().any(|(p, _)| *p == 0) {
            break;
        }
    }
    if run.vault.is_some() {
        run.check_live_records("end");
        run.check_audit("end");
    }
    out.nontrivial = run.allowed_calls >= 2 && run.denied_calls >= 1;
    out.observations = run.obs.iter().cloned().collect();
    // report by priority: access decisions, then values, then names (so that a
    // known name leak never masks an access finding in the same run)
    run.viols.sort_by_key(|(p, _)| *p);
    out.violation = run.viols.into_iter().next().map(|(_, v)| v);
    out
}

// ---------------------------------------------------------------- generator

struct GenEnv {
    n_ids: u8,
    n_principals: u8,
    n_create: u8,
}

type AccessOp<'a> = &'a dyn Fn(&mut Rng, u8, u8, bool, &mut dyn FnMut() -> u32) -> Step;

/// Several parents hold one secret (sometimes two) at levels drawn independently and
/// delegate it to ONE child — directly or through a middle agent — at the level they hold
/// (sometimes another). The child calls. Sometimes the secret is deleted and created again
/// under the same name and some parents are granted and delegate again. Then the delegations
/// are taken back in any order, plain or cascading, the child calling after each.
#[allow(clippy::too_many_arguments)]
fn gen_deleg_cluster(
    rng: &mut Rng,
    env: &GenEnv,
    steps: &mut Vec<Step>,
    holders: &mut Vec<(u8, u8)>,
    delegs: &mut Vec<(u8, u8, Vec<u8>)>,
    access: AccessOp<'_>,
    nv: &mut dyn FnMut() -> u32,
    sec_hint: Option<u8>,
) {
    let (n_ids, n_pr, n_create) = (env.n_ids, env.n_principals, env.n_create);
    // the child: an identity, often one that was delegated to before
    let child = if !delegs.is_empty() && rng.chance(1, 2) {
        let c = delegs[rng.usize_below(delegs.len())].1;
        if c >= 1 && c <= n_ids { c } else { rng.range(1, u64::from(n_ids)) as u8 }
    } else {
        rng.range(1, u64::from(n_ids)) as u8
    };
    let s = sec_hint.unwrap_or_else(|| rng.below(u64::from(n_create)) as u8);
    let s2 = if n_create >= 2 && rng.chance(1, 3) { Some((s + 1 + rng.below(u64::from(n_create) - 1) as u8) % n_create) } else { None };
    // 2-3 parents (identities or groups; root itself 1 in 8), each with the level it holds
    let want = rng.range(2, 3) as usize;
    let mut parents: Vec<(u8, u8)> = Vec::new();
    for _ in 0..12 {
        if parents.len() >= want {
            break;
        }
        let p = if rng.chance(1, 8) { 0 } else { rng.range(1, u64::from(n_pr) - 1) as u8 };
        if p != child && !parents.iter().any(|(q, _)| *q == p) {
            parents.push((p, rng.range(1, 3) as u8));
        }
    }
    if parents.len() < 2 {
        return;
    }
    let grant_to = |rng: &mut Rng, steps: &mut Vec<Step>, holders: &mut Vec<(u8, u8)>, p: u8, lp: u8| {
        if p == 0 {
            return;
        }
        steps.push(Step::GrantPerm { who: 0, to: p - 1, sec: s, lvl: lp });
        holders.push((p, s));
        if let Some(s2) = s2 {
            steps.push(Step::GrantPerm { who: 0, to: p - 1, sec: s2, lvl: rng.range(1, 3) as u8 });
            holders.push((p, s2));
        }
    };
    for (p, lp) in parents.clone() {
        grant_to(rng, steps, holders, p, lp);
    }
    // (parent, child) pairs whose delegation can be taken back; the flag: made through a middle agent
    let mut revocable: Vec<(u8, u8, bool)> = Vec::new();
    let mut order = parents.clone();
    for k in (1..order.len()).rev() {
        order.swap(k, rng.usize_below(k + 1));
    }
    for (p, lp) in &order {
        let lvl = if rng.chance(5, 6) { *lp } else { rng.range(1, 3) as u8 };
        let more: Vec<u8> = match s2 {
            Some(x) if rng.chance(1, 2) => vec![x],
            _ => Vec::new(),
        };
        let ttl_ms = if rng.chance(1, 8) { Some(*rng.pick(&[20u32, 1_000, 60_000])) } else { None };
        let mut all = vec![s];
        all.extend(more.iter().copied());
        let mid = rng.range(1, u64::from(n_ids)) as u8;
        if rng.chance(1, 4) && mid != child && mid != *p && !parents.iter().any(|(q, _)| *q == mid) {
            steps.push(Step::Delegate { who: *p, to: mid - 1, sec: s, lvl, ttl_ms: None, more: more.clone() });
            steps.push(Step::Delegate { who: mid, to: child - 1, sec: s, lvl, ttl_ms, more: more.clone() });
            delegs.push((*p, mid, all.clone()));
            delegs.push((mid, child, all.clone()));
            revocable.push((*p, mid, true));
            if rng.chance(1, 2) {
                revocable.push((mid, child, false));
            }
            for x in &all {
                holders.push((mid, *x));
            }
        } else {
            steps.push(Step::Delegate { who: *p, to: child - 1, sec: s, lvl, ttl_ms, more: more.clone() });
            delegs.push((*p, child, all.clone()));
            revocable.push((*p, child, false));
        }
        for x in &all {
            holders.push((child, *x));
        }
    }
    if rng.chance(2, 3) {
        steps.push(access(rng, child, s, true, nv));
    }
    if rng.chance(1, 4) {
        // the secret goes and comes back under the same name; the records made for the old
        // one stay where they are
        steps.push(Step::Delete { who: 0, sec: s });
        if rng.chance(1, 2) {
            steps.push(access(rng, child, s, false, nv));
        }
        steps.push(Step::Set { who: 0, sec: s, val: nv(), sz: rng.below(5) as u8 });
        let mut again = 0;
        for (k, (p, lp)) in parents.clone().into_iter().enumerate() {
            if rng.chance(2, 3) || (again == 0 && k + 1 == parents.len()) {
                again += 1;
                grant_to(rng, steps, holders, p, lp);
                steps.push(Step::Delegate { who: p, to: child - 1, sec: s, lvl: lp, ttl_ms: None, more: Vec::new() });
                delegs.push((p, child, vec![s]));
                if !revocable.iter().any(|(a, b, _)| *a == p && *b == child) {
                    revocable.push((p, child, false));
                }
            }
        }
        if rng.chance(1, 2) {
            steps.push(access(rng, child, s, true, nv));
        }
    }
    for k in (1..revocable.len()).rev() {
        revocable.swap(k, rng.usize_below(k + 1));
    }
    for (p, c, via_mid) in revocable {
        if !rng.chance(4, 5) {
            continue;
        }
        let cascade = if via_mid { rng.chance(2, 3) } else { rng.chance(1, 3) };
        steps.push(Step::RevokeDeleg { parent: p, child: c - 1, cascade });
        let on = match s2 {
            Some(x) if rng.chance(1, 4) => x,
            _ => s,
        };
        steps.push(access(rng, child, on, true, nv));
        if rng.chance(1, 3) {
            steps.push(access(rng, child, s, false, nv));
        }
    }
}

fn gen_case(rng: &mut Rng, tier: Tier, index: u64) -> Case {
    let name_mode = if rng.chance(1, 5) { 1 } else { 0 };
    let n_ids = rng.range(3, 5) as u8;
    let n_groups = rng.range(0, 4) as u8;
    let n_secrets = rng.range(2, 6) as u8;
    let n_ns = rng.range(2, 3) as u8;
    // attenuation: documented default (1, 2, 10) or a small horizon so that "maximum
    // distance" and "one hop beyond" are reachable with a handful of groups
    // ... or a maximum distance below the level limits ("direct grants only" with the
    // default level limits left alone): the distance is what counts
    let (admin_limit, write_limit, horizon) = match rng.below(9) {
        0 => (1, 2, 10),
        1 => (1, 1, 1),
        2 => (1, 2, 2),
        3 => (2, 2, 3),
        4 => (1, 2, 3),
        5 => (1, 3, 3),
        6 => (1, 2, 1),
        7 => (2, 3, 1),
        _ => (1, 3, 2),
    };
    let n_principals = 1 + n_ids + n_groups;
    // near-duplicate identities, in a third of the cases: one or two identity slots carry the
    // key of another principal (root 1 in 4, else an identity or a group) altered slightly
    let mut lookalikes: Vec<Lookalike> = Vec::new();
    if rng.chance(1, 3) {
        let n = if rng.chance(1, 3) { 2 } else { 1 };
        let mut slots: Vec<u8> = (1..=n_ids).collect();
        let mut chosen: Vec<u8> = Vec::new();
        for _ in 0..n {
            chosen.push(slots.remove(rng.usize_below(slots.len())));
        }
        for slot in &chosen {
            let of = if rng.chance(1, 4) {
                0
            } else {
                let cands: Vec<u8> = (1..n_principals).filter(|p| !chosen.contains(p)).collect();
                *rng.pick(&cands)
            };
            lookalikes.push(Lookalike { slot: *slot, of, kind: rng.below(u64::from(N_LOOKALIKE_KINDS)) as u8 });
        }
    }
    // principal index -> identity slot that is its near-duplicate
    let twin_of = |p: u8| -> Option<u8> { lookalikes.iter().find(|l| l.of == p).map(|l| l.slot) };
    let cfg = Cfg {
        n_ids,
        n_groups,
        n_secrets,
        n_ns,
        admin_limit,
        write_limit,
        horizon,
        name_mode,
        max_versions: rng.range(1, 5) as u8,
        name_seed: rng.next_u64(),
        lookalikes: lookalikes.clone(),
    };
    let observation_mode = rng.chance(1, 12);
    let max_steps = if tier == Tier::Quick { 40 } else { 40 };
    let mut steps: Vec<Step> = Vec::new();
    let mut val = (index as u32) << 8;
    let mut next_val = || {
        val += 1;
        val
    };
    let sz = |rng: &mut Rng| -> u8 {
        if rng.chance(1, 40) {
            rng.range(7, 9) as u8
        } else if rng.chance(1, 12) {
            rng.range(5, 6) as u8
        } else {
            rng.below(5) as u8
        }
    };
    // who is likely to hold something on which secret (generator-side guess only)
    let mut holders: Vec<(u8, u8)> = Vec::new(); // (principal index, secret)
    let mut n_ttl = 0u8;
    // pending expiry visits: (ttl index, holder principal, secret)
    let mut pending: Vec<(u8, u8, u8)> = Vec::new();
    // delegations issued so far: (parent principal, child principal, secrets) — guess only
    let mut delegs: Vec<(u8, u8, Vec<u8>)> = Vec::new();

    // phase 1: root creates secrets
    let n_create = rng.range(2, u64::from(n_secrets).min(4)) as u8;
    let env = GenEnv { n_ids, n_principals, n_create };
    for s in 0..n_create {
        steps.push(Step::Set { who: 0, sec: s, val: next_val(), sz: sz(rng) });
    }
    // phase 2: some membership edges (chains of groups)
    if n_groups > 0 {
        let n_edges = rng.range(1, 5);
        for k in 0..n_edges {
            let chain = rng.chance(1, 2) && n_groups >= 2;
            if chain && k > 0 {
                // group k-1 -> group k: build a chain for distance probes
                let g0 = (k - 1) as u8 % n_groups;
                let g1 = k as u8 % n_groups;
                steps.push(Step::Member { child: n_ids + g0, group: g1, on: true });
            } else {
                steps.push(Step::Member { child: rng.below(u64::from(n_ids)) as u8, group: rng.below(u64::from(n_groups)) as u8, on: true });
            }
        }
    }
    // phase 3: a few grants by root so that there is something to allow
    for _ in 0..rng.range(1, 4) {
        let sec = rng.below(u64::from(n_create)) as u8;
        let to = rng.below(u64::from(n_principals) - 1) as u8;
        let lvl = rng.range(1, 3) as u8;
        if rng.chance(1, 3) {
            let ttl_ms = *rng.pick(&[5u32, 50, 1_000, 60_000]);
            steps.push(Step::GrantTtl { who: 0, to, sec, lvl, ttl_ms });
            pending.push((n_ttl, to + 1, sec));
            n_ttl = n_ttl.wrapping_add(1);
        } else {
            steps.push(Step::GrantPerm { who: 0, to, sec, lvl });
        }
        holders.push((to + 1, sec));
    }
    // phase 3b: a portfolio — one principal holds something on several secrets, the level
    // drawn independently per secret (the usual shape of a real access graph; list calls
    // by such a principal meet different levels across their list)
    if rng.chance(3, 5) && n_create >= 2 {
        let to = rng.below(u64::from(n_principals) - 1) as u8;
        let first = rng.below(u64::from(n_create)) as u8;
        let n = rng.range(2, u64::from(n_create).min(3)) as u8;
        for k in 0..n {
            let sec = (first + k) % n_create;
            let lvl = rng.range(1, 3) as u8;
            if rng.chance(1, 6) {
                let ttl_ms = *rng.pick(&[50u32, 1_000, 60_000]);
                steps.push(Step::GrantTtl { who: 0, to, sec, lvl, ttl_ms });
                pending.push((n_ttl, to + 1, sec));
                n_ttl = n_ttl.wrapping_add(1);
            } else {
                steps.push(Step::GrantPerm { who: 0, to, sec, lvl });
            }
            holders.push((to + 1, sec));
        }
    }
    // further secrets for a list call by principal p that starts with `first`: those p is
    // believed to hold something on, sometimes any other
    let multi_secs = |rng: &mut Rng, holders: &Vec<(u8, u8)>, p: u8, first: u8| -> Vec<u8> {
        let mut v: Vec<u8> = Vec::new();
        for (q, s) in holders {
            if *q == p && *s != first && !v.contains(s) {
                v.push(*s);
            }
        }
        if v.len() > 1 {
            let k = rng.usize_below(v.len());
            v.swap(0, k);
        }
        v.truncate(rng.range(1, 3) as usize);
        if v.is_empty() || rng.chance(1, 4) {
            let s = if rng.chance(5, 6) { rng.below(u64::from(n_create)) as u8 } else { rng.below(u64::from(n_secrets)) as u8 };
            if s != first && !v.contains(&s) {
                v.push(s);
            }
        }
        v
    };
    let pick_who = |rng: &mut Rng, holders: &Vec<(u8, u8)>| -> (u8, u8) {
        // (principal index into `principals`, secret)
        let any_sec = |rng: &mut Rng| {
            if rng.chance(4, 5) {
                rng.below(u64::from(n_create)) as u8
            } else {
                rng.below(u64::from(n_secrets)) as u8
            }
        };
        if !holders.is_empty() && rng.chance(7, 10) {
            let (p, s) = holders[rng.usize_below(holders.len())];
            // the near-duplicate of a holder (or of a member of a holding group) asks instead
            if let Some(t) = twin_of(p) {
                if rng.chance(1, 3) {
                    return (t, s);
                }
            }
            // a group holds nothing by itself being asked: let one of the identities ask
            let p = if p > n_ids && rng.chance(3, 4) { rng.range(1, u64::from(n_ids)) as u8 } else { p };
            if let Some(t) = twin_of(p) {
                if rng.chance(1, 4) {
                    return (t, s);
                }
            }
            if rng.chance(1, 8) {
                (p, any_sec(rng))
            } else {
                (p, s)
            }
        } else if rng.chance(1, 8) {
            // root, or the identity whose key nearly is root's
            match twin_of(0) {
                Some(t) if rng.chance(1, 2) => (t, any_sec(rng)),
                _ => (0, any_sec(rng)),
            }
        } else {
            (rng.range(1, u64::from(n_principals) - 1) as u8, any_sec(rng))
        }
    };
    let access_op = |rng: &mut Rng, who: u8, sec: u8, mutating_bias: bool, nv: &mut dyn FnMut() -> u32| -> Step {
        let r = rng.below(22);
        let m = if mutating_bias { 4 } else { 0 };
        // 1-2 further secrets for the list forms (delegate / batch_get / batch_set)
        let others = |rng: &mut Rng| -> Vec<u8> {
            let mut v = Vec::new();
            for _ in 0..rng.range(1, 2) {
                let s = rng.below(u64::from(n_create)) as u8;
                if s != sec && !v.contains(&s) {
                    v.push(s);
                }
            }
            v
        };
        if r < 5 - m {
            if rng.chance(1, 6) {
                Step::GetVersion { who, sec }
            } else {
                Step::Get { who, sec }
            }
        } else if r < 8 - m {
            Step::List { who, sec, pat: rng.below(3) as u8 }
        } else if r < 9 && mutating_bias {
            Step::GetVersion { who, sec }
        } else if r < 11 {
            Step::Rotate { who, sec, val: nv(), sz: sz(rng) }
        } else if r < 13 {
            Step::Set { who, sec, val: nv(), sz: sz(rng) }
        } else if r < 15 {
            Step::Delete { who, sec }
        } else if r < 17 {
            Step::GrantPerm { who, to: rng.below(u64::from(n_principals) - 1) as u8, sec, lvl: rng.range(1, 3) as u8 }
        } else if r < 18 {
            Step::Revoke { who, to: rng.below(u64::from(n_principals) - 1) as u8, sec }
        } else if r < 20 {
            let more = if rng.chance(1, 2) { others(rng) } else { Vec::new() };
            Step::Delegate { who, to: rng.below(u64::from(n_principals) - 1) as u8, sec, lvl: rng.range(1, 3) as u8, ttl_ms: None, more }
        } else if r < 21 {
            let mut secs = vec![sec];
            secs.extend(others(rng));
            Step::BatchGet { who, secs }
        } else {
            let mut secs = vec![sec];
            secs.extend(others(rng));
            let v = nv();
            for _ in 1..secs.len() {
                nv();
            }
            Step::BatchSet { who, secs, val: v, sz: sz(rng), detailed: rng.chance(1, 2) }
        }
    };

    // phase 3c: several parents delegate overlapping secrets to one child, at the levels they
    // hold; each delegation is taken back, in any order
    if rng.chance(2, 5) {
        gen_deleg_cluster(rng, &env, &mut steps, &mut holders, &mut delegs, &access_op, &mut next_val, None);
    }

    while steps.len() < max_steps {
        // serve a pending expiry visit first, sometimes
        if !pending.is_empty() && rng.chance(1, 2) {
            let (g, holder, sec) = pending.remove(0);
            // the accessing principal: the grantee itself, or (if it is a group) some identity
            let who_for = |rng: &mut Rng| -> u8 {
                if holder > n_ids && rng.chance(4, 5) {
                    rng.range(1, u64::from(n_ids)) as u8
                } else {
                    holder
                }
            };
            if rng.chance(2, 3) {
                steps.push(Step::Advance { g, rel: Rel::Before, off_ns: *rng.pick(&[0u32, 3_000, 50_000, 1_000_000]) });
                let w = who_for(rng);
                steps.push(access_op(rng, w, sec, false, &mut next_val));
            }
            if rng.chance(2, 3) {
                steps.push(Step::Advance { g, rel: Rel::At, off_ns: rng.below(4_000) as u32 });
                let w = who_for(rng);
                steps.push({ let mb = rng.chance(1, 2); access_op(rng, w, sec, mb, &mut next_val) });
            }
            steps.push(Step::Advance { g, rel: Rel::After, off_ns: *rng.pick(&[0u32, 100, 1_000, 1_000_000, 500_000_000]) });
            let w = who_for(rng);
            steps.push({ let mb = rng.chance(3, 4); access_op(rng, w, sec, mb, &mut next_val) });
            if rng.chance(1, 2) {
                let w = who_for(rng);
                steps.push({ let mb = rng.chance(1, 2); access_op(rng, w, sec, mb, &mut next_val) });
            }
            continue;
        }
        let r = rng.below(100);
        let to_any = |rng: &mut Rng| rng.below(u64::from(n_principals) - 1) as u8; // index for nonroot()
        if r < 14 {
            // TTL grant by root (always takes effect) or by a holder
            let sec = rng.below(u64::from(n_create)) as u8;
            let to = to_any(rng);
            let who = if rng.chance(4, 5) || holders.is_empty() { 0 } else { holders[rng.usize_below(holders.len())].0 };
            let ttl_ms = *rng.pick(&[0u32, 1, 5, 50, 1_000, 60_000, 3_600_000]);
            steps.push(Step::GrantTtl { who, to, sec, lvl: rng.range(1, 3) as u8, ttl_ms });
            holders.push((to + 1, sec));
            pending.push((n_ttl, to + 1, sec));
            n_ttl = n_ttl.wrapping_add(1);
        } else if r < 26 {
            let sec = rng.below(u64::from(n_create)) as u8;
            let to = to_any(rng);
            let who = if rng.chance(3, 4) || holders.is_empty() { 0 } else { holders[rng.usize_below(holders.len())].0 };
            if rng.chance(1, 3) {
                steps.push(Step::Grant { who, to, sec });
            } else {
                steps.push(Step::GrantPerm { who, to, sec, lvl: rng.range(1, 3) as u8 });
            }
            holders.push((to + 1, sec));
        } else if r < 32 {
            // revoke (usually of a real holder) then often an access by it
            let (p, sec) = if holders.is_empty() { (1, 0) } else { holders[rng.usize_below(holders.len())] };
            let who = if rng.chance(3, 4) { 0 } else { rng.below(u64::from(n_principals)) as u8 };
            steps.push(Step::Revoke { who, to: p.saturating_sub(1), sec });
            if rng.chance(3, 4) {
                let w = if p > n_ids && rng.chance(1, 2) { rng.range(1, u64::from(n_ids)) as u8 } else { p };
                steps.push({ let mb = rng.chance(1, 2); access_op(rng, w, sec, mb, &mut next_val) });
            }
        } else if r < 39 {
            // delegate, some with TTL, half of them over a list of secrets
            let (p, sec) = if holders.is_empty() || rng.chance(1, 4) { (0, rng.below(u64::from(n_create)) as u8) } else { holders[rng.usize_below(holders.len())] };
            let to = to_any(rng);
            let ttl_ms = if rng.chance(2, 5) { Some(*rng.pick(&[1u32, 20, 1_000, 60_000])) } else { None };
            let more = if rng.chance(1, 2) { multi_secs(rng, &holders, p, sec) } else { Vec::new() };
            steps.push(Step::Delegate { who: p, to, sec, lvl: rng.range(1, 3) as u8, ttl_ms, more: more.clone() });
            let mut all = vec![sec];
            all.extend(more.iter().copied());
            delegs.push((p, to + 1, all));
            holders.push((to + 1, sec));
            for s in &more {
                holders.push((to + 1, *s));
            }
            if ttl_ms.is_some() {
                pending.push((n_ttl, to + 1, sec));
                n_ttl = n_ttl.wrapping_add(1);
            } else if !more.is_empty() && to + 1 <= n_ids && rng.chance(1, 2) {
                // the child uses what it was handed on one of the listed secrets
                let s = if rng.chance(1, 2) { sec } else { more[rng.usize_below(more.len())] };
                steps.push(access_op(rng, to + 1, s, true, &mut next_val));
            }
        } else if r < 46 && n_groups > 0 {
            let on = rng.chance(3, 4);
            let child = if rng.chance(2, 3) { rng.below(u64::from(n_ids)) as u8 } else { n_ids + rng.below(u64::from(n_groups)) as u8 };
            steps.push(Step::Member { child, group: rng.below(u64::from(n_groups)) as u8, on });
        } else if r < 50 {
            // root deletes / recreates
            let sec = rng.below(u64::from(n_secrets)) as u8;
            if rng.chance(1, 2) {
                steps.push(Step::Delete { who: 0, sec });
            } else {
                steps.push(Step::Set { who: 0, sec, val: next_val(), sz: sz(rng) });
            }
        } else if r < 54 {
            steps.push(Step::Snapshot);
        } else if r < 58 {
            steps.push(Step::AdvanceMs(*rng.pick(&[1u32, 10, 999, 1_000, 60_000])));
        } else if r < 63 {
            // the list forms of get / set over what the caller holds (and sometimes more)
            let (w, s) = pick_who(rng, &holders);
            let mut secs = vec![s];
            secs.extend(multi_secs(rng, &holders, w, s));
            if rng.chance(1, 2) {
                steps.push(Step::BatchGet { who: w, secs });
            } else {
                let v = next_val();
                for _ in 1..secs.len() {
                    next_val();
                }
                steps.push(Step::BatchSet { who: w, secs, val: v, sz: sz(rng), detailed: rng.chance(1, 2) });
            }
        } else if r < 68 {
            // a delegation is taken back (usually one that was made), then often the child —
            // or, of a group, a member — calls
            let (p, c, secs) = if !delegs.is_empty() && rng.chance(5, 6) {
                delegs[rng.usize_below(delegs.len())].clone()
            } else {
                (rng.below(u64::from(n_principals)) as u8, rng.range(1, u64::from(n_principals) - 1) as u8, vec![rng.below(u64::from(n_create)) as u8])
            };
            steps.push(Step::RevokeDeleg { parent: p, child: c - 1, cascade: rng.chance(1, 3) });
            if rng.chance(3, 4) {
                let w = if c > n_ids && rng.chance(1, 2) { rng.range(1, u64::from(n_ids)) as u8 } else { c };
                let s = secs[rng.usize_below(secs.len())];
                steps.push({ let mb = rng.chance(1, 2); access_op(rng, w, s, mb, &mut next_val) });
            }
        } else if r < 71 {
            gen_deleg_cluster(rng, &env, &mut steps, &mut holders, &mut delegs, &access_op, &mut next_val, None);
        } else if r < 74 {
            // a secret is deleted and created again under the same name; former holders call,
            // grants and delegations on the new secret follow
            let sec = rng.below(u64::from(n_create)) as u8;
            let former: Vec<u8> = holders.iter().filter(|(_, s)| *s == sec).map(|(p, _)| *p).collect();
            steps.push(Step::Delete { who: 0, sec });
            if !former.is_empty() && rng.chance(1, 2) {
                let w = *rng.pick(&former);
                steps.push(access_op(rng, w, sec, false, &mut next_val));
            }
            steps.push(Step::Set { who: 0, sec, val: next_val(), sz: rng.below(5) as u8 });
            if !former.is_empty() && rng.chance(1, 2) {
                let w = *rng.pick(&former);
                steps.push({ let mb = rng.chance(1, 2); access_op(rng, w, sec, mb, &mut next_val) });
            }
            if rng.chance(1, 2) {
                gen_deleg_cluster(rng, &env, &mut steps, &mut holders, &mut delegs, &access_op, &mut next_val, Some(sec));
            } else {
                let to = if !former.is_empty() && rng.chance(2, 3) { *rng.pick(&former) - 1 } else { to_any(rng) };
                steps.push(Step::GrantPerm { who: 0, to, sec, lvl: rng.range(1, 3) as u8 });
                holders.push((to + 1, sec));
            }
        } else {
            let (w, s) = pick_who(rng, &holders);
            steps.push(access_op(rng, w, s, false, &mut next_val));
        }
    }
    steps.truncate(max_steps);
    if observation_mode {
        // OUTSIDE the quantifier: a wall-clock step between a TTL being persisted and
        // reloaded. Inserted after the first TTL grant; everything after it is an observation.
        if let Some(pos) = steps.iter().position(|s| matches!(s, Step::GrantTtl { .. })) {
            let ms = *rng.pick(&[-3_600_000i32, -5_000, -50, 50, 5_000, 3_600_000]);
            let with_wall = rng.chance(3, 4);
            let at = (pos + 1 + rng.usize_below(3)).min(steps.len());
            steps.insert(at, Step::Reload);
            if with_wall {
                steps.insert(at, Step::WallStep { ms });
            }
            steps.truncate(max_steps);
        }
    }
    Case { cfg, steps }
}

impl Scenario for C14 {
    type Case = Case;
    fn id(&self) -> &'static str {
        "C14"
    }
    fn level(&self) -> &'static str {
        "exploration"
    }
    fn runs(&self, tier: Tier) -> u64 {
        match tier {
            Tier::Quick => 20_000,
            Tier::Thorough => 600_000,
        }
    }
    fn generate(&self, rng: &mut Rng, tier: Tier, index: u64) -> Case {
        gen_case(rng, tier, index)
    }
    fn run(&self, case: &Case, ctx: &Arc<RunCtx>) -> RunOut {
        run_case(case, ctx)
    }
    fn shrink(&self, case: &Case) -> Vec<Case> {
        let mut v = Vec::new();
        for steps in drop_chunks(&case.steps) {
            let mut c = case.clone();
            c.steps = steps;
            v.push(c);
        }
        // simpler values
        for (i, st) in case.steps.iter().enumerate() {
            match st {
                Step::Set { who, sec, val, sz } if *sz != 0 => {
                    let mut c = case.clone();
                    c.steps[i] = Step::Set { who: *who, sec: *sec, val: *val, sz: 0 };
                    v.push(c);
                },
                Step::Rotate { who, sec, val, sz } if *sz != 0 => {
                    let mut c = case.clone();
                    c.steps[i] = Step::Rotate { who: *who, sec: *sec, val: *val, sz: 0 };
                    v.push(c);
                },
                // shorter lists for the list calls
                Step::Delegate { who, to, sec, lvl, ttl_ms, more } if !more.is_empty() => {
                    for k in 0..more.len() {
                        let mut m = more.clone();
                        m.remove(k);
                        let mut c = case.clone();
                        c.steps[i] = Step::Delegate { who: *who, to: *to, sec: *sec, lvl: *lvl, ttl_ms: *ttl_ms, more: m };
                        v.push(c);
                    }
                    // the first entry goes, the next one takes its place
                    let mut c = case.clone();
                    c.steps[i] = Step::Delegate { who: *who, to: *to, sec: more[0], lvl: *lvl, ttl_ms: *ttl_ms, more: more[1..].to_vec() };
                    v.push(c);
                },
                Step::BatchGet { who, secs } if secs.len() > 1 => {
                    for k in 0..secs.len() {
                        let mut m = secs.clone();
                        m.remove(k);
                        let mut c = case.clone();
                        c.steps[i] = Step::BatchGet { who: *who, secs: m };
                        v.push(c);
                    }
                },
                Step::BatchSet { who, secs, val, sz, detailed } if secs.len() > 1 || *sz != 0 => {
                    if secs.len() > 1 {
                        // drop from the end only: entry k keeps the value val + k
                        let mut c = case.clone();
                        c.steps[i] = Step::BatchSet { who: *who, secs: secs[..secs.len() - 1].to_vec(), val: *val, sz: *sz, detailed: *detailed };
                        v.push(c);
                    }
                    if *sz != 0 {
                        let mut c = case.clone();
                        c.steps[i] = Step::BatchSet { who: *who, secs: secs.clone(), val: *val, sz: 0, detailed: *detailed };
                        v.push(c);
                    }
                },
                Step::RevokeDeleg { parent, child, cascade: true } => {
                    let mut c = case.clone();
                    c.steps[i] = Step::RevokeDeleg { parent: *parent, child: *child, cascade: false };
                    v.push(c);
                },
                Step::Grant { who, to, sec } if *who != 0 => {
                    let mut c = case.clone();
                    c.steps[i] = Step::Grant { who: 0, to: *to, sec: *sec };
                    v.push(c);
                },
                Step::GrantPerm { who, to, sec, lvl } if *who != 0 => {
                    let mut c = case.clone();
                    c.steps[i] = Step::GrantPerm { who: 0, to: *to, sec: *sec, lvl: *lvl };
                    v.push(c);
                },
                Step::GrantTtl { who, to, sec, lvl, ttl_ms } if *who != 0 => {
                    let mut c = case.clone();
                    c.steps[i] = Step::GrantTtl { who: 0, to: *to, sec: *sec, lvl: *lvl, ttl_ms: *ttl_ms };
                    v.push(c);
                },
                _ => {},
            }
        }
        // well-formed identity keys only; one near-duplicate less; the plainest alteration
        if !case.cfg.lookalikes.is_empty() {
            let mut c = case.clone();
            c.cfg.lookalikes.clear();
            v.push(c);
            if case.cfg.lookalikes.len() > 1 {
                for k in 0..case.cfg.lookalikes.len() {
                    let mut c = case.clone();
                    c.cfg.lookalikes.remove(k);
                    v.push(c);
                }
            }
            for k in 0..case.cfg.lookalikes.len() {
                if case.cfg.lookalikes[k].kind != 0 {
                    let mut c = case.clone();
                    c.cfg.lookalikes[k].kind = 0;
                    v.push(c);
                }
            }
        }
        if case.cfg.max_versions != 5 {
            let mut c = case.clone();
            c.cfg.max_versions = 5;
            v.push(c);
        }
        if (case.cfg.admin_limit, case.cfg.write_limit, case.cfg.horizon) != (1, 2, 10) {
            let mut c = case.clone();
            c.cfg.admin_limit = 1;
            c.cfg.write_limit = 2;
            c.cfg.horizon = 10;
            v.push(c);
        }
        v
    }
    fn required_probes(&self) -> Vec<&'static str> {
        vec![
            "access_at_expiry_instant",
            "access_after_expiry_no_cleanup",
            "mutating_call_by_expired_holder",
            "group_at_max_distance",
            "group_one_hop_beyond",
            "revoke_then_access",
            "grant_by_non_admin",
            "store_image_scanned",
            "audit_records_scanned",
            // list calls: the levels of the caller differ across the list
            "multi_delegate_mixed_levels",
            "multi_delegate_above_weakest_level",
            "batch_get_mixed_allow_deny",
            "batch_set_mixed_allow_deny",
            // delegation records: several to one child on one secret, at different levels;
            // one of them taken back (the higher one; through the cascading call; a record made
            // for a deleted secret of the same name still present), then the child calls
            "several_delegations_different_levels",
            "deleg_revoke_with_sibling_record",
            "deleg_revoke_of_the_higher_of_two",
            "deleg_revoke_then_access",
            "deleg_revoke_then_access_lower_level_left",
            "cascading_revoke_of_a_chain",
            "redelegated_after_recreate",
            // near-duplicate identity keys: of a principal the model allows, of a member of a
            // group that holds the grant, of root
            "near_duplicate_of_allowed_principal_calls",
            "near_duplicate_of_group_member_calls",
            "near_duplicate_of_root_calls",
        ]
    }
    fn rule(&self) -> String {
        "A case is a generated program of <=40 steps over root, 3-5 identities (in a third of the cases one or two of them carry a near-duplicate of another principal's or of root's key: surrounding white space, other case, a confusable or invisible character), 0-4 groups and 2-6 secrets in 2-3 namespaces (set/get/list/rotate/delete/grant/grant_with_permission/grant_with_ttl/revoke/delegate over one or several secrets, several parents to one child directly or through a middle agent/revoke_delegation/revoke_delegation_cascading/delete and re-create under the same name/batch_get/batch_set/batch_set_detailed/MEMBER edge add+remove, clock advances aimed before/at/after a TTL grant's expiry window, snapshots) plus an attenuation policy (admin_limit, write_limit, horizon) and a naming mode (long unique alphanumeric names+values with at-rest checks, or short/non-ASCII names and arbitrary UTF-8 values with only the allow/deny matrix judged). Every call's outcome is compared with an independent access model; a call over a list of secrets is one decision per (identity, secret) pair. Non-trivial: at least 2 calls were allowed and at least 1 was refused. Distinct: hash of (naming mode, attenuation policy, sequence of successful operation kinds).".into()
    }
    fn components(&self) -> Value {
        json!({
            "real": ["tensor_vault::Vault (set, get, list, rotate, delete, grant, grant_with_permission, grant_with_ttl, revoke, delegate incl. multi-secret lists, revoke_delegation, revoke_delegation_cascading, batch_get, batch_set, batch_set_detailed, audit_recent, Vault::new reload)", "tensor_vault AccessController / AttenuationPolicy / GrantTTLTracker / DelegationManager / AuditLog / Obfuscator / Cipher", "graph_engine::GraphEngine (MEMBER edges through the public graph handle)", "tensor_store::TensorStore incl. snapshot_bytes"],
            "simulated": ["monotonic and wall clock (clock_gettime interposed; every read moves time by 100 ns)", "getrandom (nonces, salts, HashMap seeds)"],
            "stub": ["Argon2 cost at its minimum (8 KiB, t=1, p=1) through VaultConfig", "rate limiter disabled, vault never sealed"]
        })
    }
    fn assumptions(&self) -> Vec<String> {
        vec![
            "the property is read one-directionally: success without a sufficient live grant is a violation; a refusal despite a live grant is only a labelled observation (over-deny/*)".into(),
            "whether a grant is live exactly AT its expiry instant is undocumented: a call is judged only if it ended strictly before the earliest, or began strictly after the latest, instant the expiry can have been computed at".into(),
            "level needed per call, from the Permission documentation: get/list Read; set (overwrite)/rotate Write; delete/grant/revoke Admin; creating a secret is reserved to root; delegate needs the delegated level (Vault::delegate documentation), not Admin".into(),
            "calls that take a list of secrets are judged per (identity, secret) pair: a successful delegate needs the delegated level on EVERY listed secret; batch_get / batch_set / batch_set_detailed are the list forms of get / set (Read / Write per entry, creating reserved to root); a list call refused as a whole is explained by any one listed pair the model does not certainly allow".into(),
            "after a batch_set that failed half-way (it stops at the first failing entry, in an order of its own) the harness reads the listed secrets back as root to learn which entries were written; that read runs the vault's cleanup pass".into(),
            "delegations: the model keeps one entry per (delegation record, secret); the vault keeps one record per (parent, child), a later delegate between the same two replaces it; revoke_delegation(parent, child) revokes the entries of the current record of that pair, revoke_delegation_cascading that record and, transitively, every record whose parent is a child reached (documented: 'all transitive sub-delegations'); entries of a replaced record are not revoked by either (the call reports only the current record's secrets); the two calls take no requester, so they are no access decision themselves; the vault removes every access edge of the (child, secret) pairs of a revoked record, including other parents' and plain grants (observation over-deny/*/revoked-delegation-took-sibling-grants-of-same-pair)".into(),
            "identities are the key strings the API takes: keys that differ in surrounding white space, case, a confusable or an invisible character are different principals ('a requester other than the root identity', 'a grant ... from that requester'); only the exact key node:root is root".into(),
            "distance = MEMBER hops + 1; attenuation as documented in attenuation.rs (Admin up to admin_limit hops, Write up to write_limit, Read up to horizon)".into(),
            "group membership is changed through the vault's public graph handle (MEMBER edges), the only way the crate offers".into(),
            "a namespace prefix appearing in clear is not counted as the secret's name appearing (observation namespace-prefix-at-rest)".into(),
            "wall-clock steps and vault reloads are outside the quantifier: everything after one is reported under the labels after-wall-step / after-reload only".into(),
        ]
    }
    fn watchdog_secs(&self) -> u64 {
        300
    }
}
