//! C03 — Two-phase commit: one decision, reached by every participant.
//!
//! One real `DistributedTxCoordinator` (no WAL), 2–3 shards each a real
//! `TxParticipant` over its own `TensorStore` behind the real `TxHandler`
//! (`Message` in → `Message` out), `SimTransport` between them. The driver stub
//! is the minimum the protocol dictates and never invents a vote or a
//! decision: `begin` → `TxPrepare` to each shard → every `TxPrepareResponse`
//! goes into `record_vote` → `Prepared` ⇒ `commit`, and only if `commit`
//! returned `Ok` a `TxCommit` to every shard → `Aborting` or listed by
//! `cleanup_timeouts` ⇒ the real `process_pending_aborts(&SimTransport)`.
//! The case's step list decides which in-flight message is delivered, dropped,
//! duplicated or delayed, when the coordinator's timeout sweep fires and when
//! the clock passes the participants' lock timeout. Participants and message
//! handling run on the one kernel thread; a `Concurrent` step runs 1-3 baton
//! threads (`sched::run_threads`, switches at `tensor_chain`'s lock
//! acquisitions) that issue coordinator calls (`record_vote`, `commit`,
//! `abort`, `cleanup_timeouts`, `process_pending_aborts`) side by side, as
//! `cluster.rs` does from `spawn_blocking` workers and its tick loop; the
//! recorded outcomes are judged by the same oracle afterwards.

use crate::ctx::RunCtx;
use crate::driver::{drop_chunks, RunOut, Scenario, Tier, Violation};
use crate::net::{new_net, now_or_never, InFlight, Net, SimTransport};
use crate::rng::Rng;
use crate::sched;
use crate::storeutil::{canon_data, dump_store, hex};
use serde::{Deserialize, Serialize};
use serde_json::{json, Value};
use std::collections::{BTreeMap, BTreeSet};
use std::sync::{Arc, Mutex};
use std::time::Duration;
use tensor_chain::block::Transaction;
use tensor_chain::consensus::ConsensusManager;
use tensor_chain::distributed_tx::{DistributedTxConfig, DistributedTxCoordinator, TxParticipant, TxPhase, VoteRecordError};
use tensor_chain::network::{Message, MessageHandler, Transport, TxAbortMsg, TxCommitMsg, TxHandler, TxPrepareMsg, TxVote};
use tensor_store::{ScalarValue, SparseVector, TensorData, TensorStore, TensorValue};

const COORD: &str = "coord";
const NKEYS: u8 = 4;
/// participant lock timeout (`LockManager::new`: 30 s)
const LOCK_TIMEOUT_MS: u64 = 30_000;
const MAX_STEPS: usize = 120;

#[derive(Serialize, Deserialize, Clone, Debug, PartialEq)]
pub enum OpSpec {
    Put { k: u8 },
    Del { k: u8 },
    /// expect: 0 = the value committed on the shard when the transaction starts
    /// (swap succeeds unless somebody commits in between), 1 = a value nobody
    /// ever wrote (swap is a no-op), 2 = empty (matches an absent key)
    Cas { k: u8, expect: u8 },
}

impl OpSpec {
    fn k(&self) -> u8 {
        match self {
            OpSpec::Put { k } | OpSpec::Del { k } | OpSpec::Cas { k, .. } => *k,
        }
    }
}

#[derive(Serialize, Deserialize, Clone, Debug, PartialEq)]
pub struct PartSpec {
    pub shard: u8,
    pub ops: Vec<OpSpec>,
    /// position of the one non-zero entry of the delta embedding sent with the
    /// prepare (two participants with the same position and a common key name
    /// make the coordinator's orthogonality check refuse the transaction)
    pub emb: u8,
}

#[derive(Serialize, Deserialize, Clone, Debug, PartialEq)]
pub struct TxSpec {
    pub parts: Vec<PartSpec>,
}

/// One coordinator call made by a thread of a `Concurrent` step.
#[derive(Serialize, Deserialize, Clone, Debug, PartialEq)]
pub enum Call {
    /// hand the pick-th in-flight `TxPrepareResponse` addressed to the coordinator
    /// to `record_vote`; on `Prepared` (and unless `defer_commit`) the same thread
    /// calls `commit` next, as the driver stub does
    Vote { pick: u16 },
    Commit { tx: u8 },
    /// `abort(tx, "client abort")`: the driver cancels the transaction; only if it
    /// returned `Ok` the stub sends `TxAbort` to every participant
    Abort { tx: u8 },
    /// `cleanup_timeouts`
    Sweep,
    /// `process_pending_aborts`
    Pump,
}

#[derive(Serialize, Deserialize, Clone, Debug, PartialEq)]
pub enum Step {
    /// begin transaction `tx` (index into `Case::txs`) and send its prepares
    Start { tx: u8 },
    Deliver { pick: u16 },
    Drop { pick: u16 },
    Dup { pick: u16 },
    /// move the message to the back of the in-flight list
    Delay { pick: u16 },
    Advance { ms: u32 },
    /// `cleanup_timeouts` + `process_pending_aborts` at the current time
    Sweep,
    /// advance the clock past `prepare_timeout_ms`, then Sweep
    Timeout,
    /// advance the clock past the participants' lock timeout
    LockExpiry,
    /// the driver calls `commit(tx)` now (early, repeated, or the deferred call)
    TryCommit { tx: u8 },
    /// messages to and from the shard are lost at delivery until Heal
    Partition { shard: u8 },
    Heal,
    /// OBSERVATION ONLY (outside the quantifier): participant presumed-abort sweep
    StaleSweep { shard: u8, secs: u16 },
    /// OBSERVATION ONLY (outside the quantifier): CLOCK_REALTIME steps backwards
    WallBack { ms: u32 },
    /// advance the clock by `advance_ms`, then run `threads` (1-3 lists of
    /// coordinator calls) as baton threads under `schedule`; afterwards the
    /// kernel thread judges the outcomes in completion order, sends what the
    /// stub sends (TxCommit after commit Ok, TxAbort after abort Ok) and pumps
    /// the pending aborts
    Concurrent { advance_ms: u32, threads: Vec<Vec<Call>>, schedule: Vec<u8> },
    /// OBSERVATION ONLY (outside the quantifier, C13's subject): graceful
    /// coordinator restart through its store persistence: `save_to_store`, drop,
    /// `load_from_store`, `recover`, then the pending decisions it reports are
    /// executed (`complete_commit` / `complete_abort` + broadcast)
    Restart,
}

#[derive(Serialize, Deserialize, Clone, Debug)]
pub struct Case {
    pub shards: u8,
    /// bit (shard * NKEYS + key): the key exists on the shard before the run
    pub init_mask: u16,
    pub txs: Vec<TxSpec>,
    /// the driver does not call `commit` on `Prepared` by itself; a TryCommit
    /// step (or the tail) does, so a timeout can fall in between
    pub defer_commit: bool,
    /// the tail keeps the partition that is in force when the step list ends
    pub tail_partitioned: bool,
    pub steps: Vec<Step>,
}

pub struct C03;

#[derive(Clone, Copy, PartialEq, Eq, Debug)]
enum Dec {
    Commit,
    Abort,
}

#[derive(Default)]
struct TxRt {
    raw: u64,
    started: bool,
    begin_failed: bool,
    /// (shard -> operations as sent), shard -> CAS-resolved `Transaction`s
    ops: BTreeMap<usize, Vec<Transaction>>,
    decision: Option<Dec>,
    decided_by: &'static str,
    /// votes as produced by the participants' handlers (true = Yes), in order
    produced: BTreeMap<usize, Vec<bool>>,
    /// a non-Yes vote of this shard was accepted by `record_vote` (returned Ok)
    nonyes_delivered: BTreeSet<usize>,
    /// `record_vote` returned `Prepared` and `commit` has not been called since
    commit_pending: bool,
    commit_delivered: BTreeSet<usize>,
    abort_delivered: BTreeSet<usize>,
    applied: BTreeSet<usize>,
    /// shards a `TxAbort` of this transaction was ever addressed to (sent by the
    /// coordinator's `process_pending_aborts` or by the stub after `abort` Ok)
    abort_sent: BTreeSet<usize>,
    /// shards that had produced a Yes vote when the coordinator decided
    yes_before_decision: BTreeSet<usize>,
    /// shards whose Yes vote `record_vote` accepted
    yes_recorded: BTreeSet<usize>,
    /// shards from which some vote was handed to `record_vote`
    vote_handed: BTreeSet<usize>,
}

/// a `Call` resolved against the world before the threads start
#[derive(Clone)]
enum RCall {
    Vote { t: usize, raw: u64, shard: usize, vote: TxVote, desc: String },
    Commit { t: usize, raw: u64 },
    Abort { t: usize, raw: u64 },
    Sweep,
    Pump,
}

/// what a thread of a `Concurrent` step saw, pushed when the call returned
enum Outcome {
    Vote { t: usize, shard: usize, yes: bool, res: Result<Option<TxPhase>, VoteRecordError> },
    Commit { t: usize, res: Result<(), String>, why: &'static str },
    Abort { t: usize, res: Result<(), String> },
    Sweep { listed: Vec<u64> },
    Pump,
}

const RESTART_LABEL: &str = "coordinator restart through save_to_store/load_from_store/recover";

struct Shard {
    name: String,
    part: Arc<TxParticipant>,
    handler: TxHandler,
    transport: Arc<SimTransport>,
    /// reference map: updated only when this shard's participant commits a
    /// transaction whose decision is COMMIT
    reference: BTreeMap<String, Vec<u8>>,
}

fn key_name(k: u8) -> String {
    format!("k{}", k % NKEYS)
}

fn data_of(bytes: &[u8]) -> TensorData {
    let mut t = TensorData::new();
    t.set("data", TensorValue::Scalar(ScalarValue::Bytes(bytes.to_vec())));
    t
}

fn canon_ref(m: &BTreeMap<String, Vec<u8>>) -> BTreeMap<String, String> {
    m.iter().map(|(k, v)| (k.clone(), canon_data(&data_of(v)))).collect()
}

/// Sequential meaning of a shard's operation list (what `TxParticipant::commit`
/// is documented to do): Put stores, Delete removes, CompareAndSwap stores the
/// new bytes iff the current bytes (absent = empty) equal the expected ones.
fn apply_ops(m: &mut BTreeMap<String, Vec<u8>>, ops: &[Transaction]) {
    for op in ops {
        match op {
            Transaction::Put { key, data } => {
                m.insert(key.clone(), data.clone());
            },
            Transaction::Delete { key } => {
                m.remove(key);
            },
            Transaction::CompareAndSwap { key, expected_data, new_data } => {
                let cur: &[u8] = m.get(key).map(Vec::as_slice).unwrap_or(&[]);
                if cur == expected_data.as_slice() {
                    m.insert(key.clone(), new_data.clone());
                }
            },
            _ => {},
        }
    }
}

fn show(m: &BTreeMap<String, String>) -> String {
    let mut s = String::from("{");
    for (k, v) in m {
        // "{data=x:6162;}" -> readable bytes when they are ASCII
        let inner = v.trim_start_matches("{data=x:").trim_end_matches(";}");
        let txt = if inner.len() % 2 == 0 && inner.bytes().all(|b| b.is_ascii_hexdigit()) {
            let bytes: Vec<u8> = (0..inner.len() / 2).filter_map(|i| u8::from_str_radix(&inner[2 * i..2 * i + 2], 16).ok()).collect();
            if bytes.iter().all(|b| b.is_ascii_graphic()) {
                String::from_utf8_lossy(&bytes).into_owned()
            } else {
                format!("x:{}", hex(&bytes))
            }
        } else {
            v.clone()
        };
        s.push_str(&format!("{k}={txt} "));
    }
    s.push('}');
    s
}

/// `generate_tx_id` mixes two process-global statics (`LAST_TIMESTAMP`,
/// `OVERFLOW_COUNTER`) into the id, and parallel runs start from the same
/// simulated time. Raw ids decide `HashMap` iteration order inside the code
/// under test, so they must be a function of the run alone: `begin` is called
/// under this process-wide lock right after an id generated one simulated
/// millisecond earlier, which pins the statics to the run's own clock.
static BEGIN_LOCK: Mutex<()> = Mutex::new(());

struct World<'a> {
    ctx: &'a Arc<RunCtx>,
    case: &'a Case,
    net: Net,
    coord: Arc<DistributedTxCoordinator>,
    /// the store the coordinator persists itself into (Restart steps only)
    coord_store: Option<TensorStore>,
    coord_tr: Arc<SimTransport>,
    shards: Vec<Shard>,
    txs: Vec<TxRt>,
    by_raw: BTreeMap<u64, usize>,
    partitioned: BTreeSet<usize>,
    /// an out-of-quantifier step took effect: later findings are observations
    tainted: Option<&'static str>,
    violation: Option<Violation>,
    observations: Vec<String>,
    harness_error: Option<String>,
    lock_expiry_seen: bool,
}

impl<'a> World<'a> {
    fn new(ctx: &'a Arc<RunCtx>, case: &'a Case) -> Self {
        let n = usize::from(case.shards.clamp(2, 3));
        let mut names: Vec<String> = vec![COORD.to_string()];
        for s in 0..n {
            names.push(format!("shard-{s}"));
        }
        let net = new_net();
        let coord = Arc::new(DistributedTxCoordinator::new(ConsensusManager::default_config(), DistributedTxConfig::default()));
        let coord_tr = SimTransport::new(COORD, &names, &net);
        let mut shards = Vec::new();
        for s in 0..n {
            let store = TensorStore::new();
            let mut reference = BTreeMap::new();
            for k in 0..NKEYS {
                if case.init_mask >> (s as u8 * NKEYS + k) & 1 == 1 {
                    let v = format!("init-s{s}-k{k}").into_bytes();
                    let _ = store.put(key_name(k), data_of(&v));
                    reference.insert(key_name(k), v);
                }
            }
            let part = Arc::new(TxParticipant::new(store));
            shards.push(Shard {
                name: format!("shard-{s}"),
                handler: TxHandler::new(part.clone()),
                part,
                transport: SimTransport::new(&format!("shard-{s}"), &names, &net),
                reference,
            });
        }
        let txs = case.txs.iter().map(|_| TxRt::default()).collect();
        World {
            ctx,
            case,
            net,
            coord,
            coord_store: None,
            coord_tr,
            shards,
            txs,
            by_raw: BTreeMap::new(),
            partitioned: BTreeSet::new(),
            tainted: None,
            violation: None,
            observations: Vec::new(),
            harness_error: None,
            lock_expiry_seen: false,
        }
    }

    fn violate(&mut self, class: &str, detail: String) {
        if let Some(why) = self.tainted {
            let o = format!("observation({why}, outside C03's quantifier): {class}");
            self.ctx.event(&format!("OBSERVATION {class}: {detail}"));
            if !self.observations.contains(&o) {
                self.observations.push(o);
            }
            return;
        }
        self.ctx.event(&format!("VIOLATION {class}: {detail}"));
        if self.violation.is_none() {
            self.violation = Some(Violation { class: class.to_string(), detail });
        }
    }

    fn shard_of(name: &str) -> Option<usize> {
        name.strip_prefix("shard-").and_then(|s| s.parse().ok())
    }

    fn tname(&self, raw: u64) -> String {
        match self.by_raw.get(&raw) {
            Some(t) => format!("T{t}"),
            None => "T?".into(),
        }
    }

    fn describe(&self, m: &InFlight) -> String {
        let body = match &m.msg {
            Message::TxPrepare(p) => format!("TxPrepare({})", self.tname(p.tx_id)),
            Message::TxPrepareResponse(r) => format!(
                "TxPrepareResponse({},s{},{})",
                self.tname(r.tx_id),
                r.shard_id,
                match r.vote {
                    TxVote::Yes { .. } => "Yes",
                    TxVote::No { .. } => "No",
                    TxVote::Conflict { .. } => "Conflict",
                }
            ),
            Message::TxCommit(c) => format!("TxCommit({})", self.tname(c.tx_id)),
            Message::TxAbort(a) => format!("TxAbort({},{})", self.tname(a.tx_id), a.reason),
            Message::TxAck(a) => format!("TxAck({},ok={})", self.tname(a.tx_id), a.success),
            other => other.type_name().to_string(),
        };
        format!("{}->{} {body}", m.from, m.to)
    }

    fn inflight_len(&self) -> usize {
        self.net.lock().unwrap().inflight.len()
    }

    fn send_from(&mut self, tr: &Arc<SimTransport>, to: &str, msg: Message) {
        if now_or_never(tr.send(&to.to_string(), msg)).is_err() {
            self.harness_error = Some("SimTransport::send failed".into());
        }
    }

    // ---- the driver stub -------------------------------------------------

    fn start(&mut self, t: usize) {
        if t >= self.txs.len() || self.txs[t].started {
            return;
        }
        let spec = self.case.txs[t].clone();
        let n = self.shards.len();
        let mut parts: Vec<PartSpec> = Vec::new();
        for p in &spec.parts {
            let s = usize::from(p.shard) % n;
            if !parts.iter().any(|q| usize::from(q.shard) % n == s) {
                parts.push(p.clone());
            }
        }
        if parts.is_empty() {
            return;
        }
        let shard_ids: Vec<usize> = parts.iter().map(|p| usize::from(p.shard) % n).collect();
        // see BEGIN_LOCK: make the raw id a function of this run's clock only
        let began = {
            let _g = BEGIN_LOCK.lock().unwrap_or_else(std::sync::PoisonError::into_inner);
            self.ctx.advance_ms(1);
            let _ = tensor_chain::tx_id::generate_tx_id();
            self.ctx.advance_ms(1);
            self.coord.begin(&COORD.to_string(), &shard_ids)
        };
        self.txs[t].started = true;
        self.note_lock_expiry();
        let tx = match began {
            Ok(tx) => tx,
            Err(e) => {
                self.txs[t].begin_failed = true;
                self.ctx.event(&format!("start T{t}: begin failed: {e}"));
                return;
            },
        };
        self.txs[t].raw = tx.tx_id;
        if self.by_raw.insert(tx.tx_id, t).is_some() {
            self.harness_error = Some("two transactions got the same id".into());
            return;
        }
        self.ctx.event(&format!("start T{t} participants={shard_ids:?}"));
        self.ctx.fp(&format!("start:{}", shard_ids.len()));
        for p in &parts {
            let s = usize::from(p.shard) % n;
            let mut ops = Vec::new();
            for (j, o) in p.ops.iter().enumerate() {
                let key = key_name(o.k());
                // unique per (transaction, shard, operation): attributable bytes
                let val = format!("T{t}-s{s}-o{j}").into_bytes();
                ops.push(match o {
                    OpSpec::Put { .. } => Transaction::Put { key, data: val },
                    OpSpec::Del { .. } => Transaction::Delete { key },
                    OpSpec::Cas { expect, .. } => {
                        let expected_data = match expect % 3 {
                            0 => self.shards[s].reference.get(&key).cloned().unwrap_or_default(),
                            1 => b"never-written".to_vec(),
                            _ => Vec::new(),
                        };
                        Transaction::CompareAndSwap { key, expected_data, new_data: val }
                    },
                });
            }
            self.ctx.event(&format!("  T{t} shard-{s} ops={}", ops_str(&ops)));
            let mut emb = SparseVector::new(8);
            emb.set(usize::from(p.emb % 8), 1.0);
            let msg = Message::TxPrepare(TxPrepareMsg {
                tx_id: tx.tx_id,
                coordinator: COORD.to_string(),
                shard_id: s,
                operations: ops.clone(),
                delta_embedding: emb,
                timeout_ms: tx.timeout_ms,
            });
            self.txs[t].ops.insert(s, ops);
            let tr = self.coord_tr.clone();
            self.send_from(&tr, &format!("shard-{s}"), msg);
        }
    }

    fn decide(&mut self, t: usize, d: Dec, by: &'static str) {
        match self.txs[t].decision {
            None => {
                self.txs[t].decision = Some(d);
                self.txs[t].decided_by = by;
                self.txs[t].yes_before_decision = self.txs[t].produced.iter().filter(|(_, v)| v.iter().any(|y| *y)).map(|(s, _)| *s).collect();
                self.ctx.event(&format!("DECISION T{t} {d:?} by {by}"));
                self.ctx.fp(&format!("dec:{d:?}:{by}"));
                match d {
                    Dec::Commit => self.ctx.probe("decided_commit"),
                    Dec::Abort => self.ctx.probe("decided_abort"),
                }
            },
            Some(prev) if prev != d => {
                // item 1 — "the coordinator decides at most once ... and the
                // decision never changes afterwards"
                let prev_by = self.txs[t].decided_by;
                self.violate(
                    &format!("decision-changed:{prev:?}-by-{prev_by}->{d:?}-by-{by}"),
                    format!("T{t}: the coordinator decided {prev:?} (by {prev_by}) and later {d:?} (by {by})"),
                );
            },
            Some(_) => {
                self.ctx.event(&format!("decision T{t} {d:?} reaffirmed by {by}"));
            },
        }
    }

    fn try_commit(&mut self, t: usize, why: &'static str) {
        if t >= self.txs.len() || !self.txs[t].started || self.txs[t].begin_failed {
            return;
        }
        let raw = self.txs[t].raw;
        let res = self.coord.commit(raw).map_err(|e| e.to_string());
        self.commit_result(t, res, why, "commit");
    }

    /// `commit` (by = "commit") or, after a restart, `complete_commit` (by =
    /// "recovery") returned `res`: an `Ok` is the coordinator's COMMIT decision.
    fn commit_result(&mut self, t: usize, res: Result<(), String>, why: &'static str, by: &'static str) {
        let raw = self.txs[t].raw;
        self.txs[t].commit_pending = false;
        match res {
            Ok(()) => {
                self.ctx.event(&format!("{by}(T{t}) [{why}] -> Ok"));
                // item 2 — "it decides commit only if every participant voted yes":
                // the votes are the ones the participants' handlers produced.
                let parts: Vec<usize> = self.txs[t].ops.keys().copied().collect();
                for s in &parts {
                    let yes = self.txs[t].produced.get(s).is_some_and(|v| v.iter().any(|y| *y));
                    if !yes {
                        self.violate(
                            "commit-without-yes-vote",
                            format!(
                                "T{t}: {by}() returned Ok although shard-{s} never voted Yes (votes it produced: {:?})",
                                self.txs[t].produced.get(s)
                            ),
                        );
                    }
                    if self.txs[t].nonyes_delivered.contains(s) {
                        self.violate(
                            "commit-despite-no-vote",
                            format!("T{t}: {by}() returned Ok although record_vote had accepted a No/Conflict vote of shard-{s}"),
                        );
                    }
                }
                self.decide(t, Dec::Commit, by);
                let tr = self.coord_tr.clone();
                for s in parts {
                    self.send_from(&tr, &format!("shard-{s}"), Message::TxCommit(TxCommitMsg { tx_id: raw, shards: vec![s] }));
                }
            },
            Err(e) => {
                let e = e.replace(&raw.to_string(), &format!("T{t}"));
                self.ctx.event(&format!("{by}(T{t}) [{why}] -> Err({e})"));
                if why == "step" {
                    self.ctx.probe("commit_call_refused");
                }
            },
        }
    }

    /// `abort(tx, ..)` called by the driver (by = "abort-call") or, after a
    /// restart, `complete_abort` (by = "recovery") returned `res`: an `Ok` is the
    /// coordinator's ABORT decision, which the stub then sends to every participant.
    fn abort_result(&mut self, t: usize, res: Result<(), String>, by: &'static str) {
        let raw = self.txs[t].raw;
        match res {
            Ok(()) => {
                self.ctx.event(&format!("{by}: abort(T{t}) -> Ok"));
                if by == "abort-call" {
                    self.ctx.probe("abort_call_accepted");
                    if self.txs[t].commit_pending {
                        self.ctx.probe("abort_call_between_prepared_and_commit");
                    }
                }
                self.decide(t, Dec::Abort, by);
                let parts: Vec<usize> = self.txs[t].ops.keys().copied().collect();
                let tr = self.coord_tr.clone();
                for s in parts {
                    self.send_from(&tr, &format!("shard-{s}"), Message::TxAbort(TxAbortMsg { tx_id: raw, reason: by.to_string(), shards: vec![s] }));
                    self.txs[t].abort_sent.insert(s);
                }
            },
            Err(e) => {
                let e = e.replace(&raw.to_string(), &format!("T{t}"));
                self.ctx.event(&format!("{by}: abort(T{t}) -> Err({e})"));
                if by == "abort-call" {
                    self.ctx.probe("abort_call_refused");
                }
            },
        }
    }

    /// `process_pending_aborts` through the coordinator's SimTransport.
    fn pump_aborts(&mut self) {
        let mark = self.inflight_len();
        now_or_never(self.coord.process_pending_aborts(&*self.coord_tr));
        self.canon_new_aborts(mark);
    }

    /// The messages queued since `mark` (all sent by `process_pending_aborts`)
    /// are put into a canonical order (the order of one batch depends on
    /// `HashMap` iteration inside the coordinator) and noted as "addressed to".
    fn canon_new_aborts(&mut self, mark: usize) {
        let mut sent: Vec<(u64, String)> = Vec::new();
        {
            let mut g = self.net.lock().unwrap();
            if g.inflight.len() > mark {
                let ids: Vec<u64> = g.inflight[mark..].iter().map(|m| m.id).collect();
                let by_raw = &self.by_raw;
                g.inflight[mark..].sort_by_key(|m| {
                    let raw = if let Message::TxAbort(a) = &m.msg { a.tx_id } else { 0 };
                    (by_raw.get(&raw).copied().unwrap_or(usize::MAX), m.to.clone())
                });
                for (m, id) in g.inflight[mark..].iter_mut().zip(ids) {
                    m.id = id;
                    if let Message::TxAbort(a) = &m.msg {
                        sent.push((a.tx_id, m.to.clone()));
                    }
                }
            }
        }
        for (raw, to) in sent {
            if let (Some(&t), Some(s)) = (self.by_raw.get(&raw), Self::shard_of(&to)) {
                self.txs[t].abort_sent.insert(s);
            }
        }
    }

    fn sweep(&mut self) {
        let listed = self.coord.cleanup_timeouts();
        self.swept(&listed);
        self.pump_aborts();
    }

    /// `cleanup_timeouts` returned `listed`: each listed transaction is decided ABORT.
    fn swept(&mut self, listed: &[u64]) {
        let mut ts: Vec<usize> = listed.iter().filter_map(|r| self.by_raw.get(r).copied()).collect();
        ts.sort_unstable();
        if ts.len() != listed.len() {
            self.harness_error = Some("cleanup_timeouts listed an unknown transaction".into());
        }
        self.ctx.event(&format!("sweep: cleanup_timeouts -> {:?}", ts.iter().map(|t| format!("T{t}")).collect::<Vec<_>>()));
        for t in ts {
            self.ctx.fault_fired("coordinator_timeout");
            if self.txs[t].commit_pending {
                self.ctx.probe("timeout_between_prepared_and_commit");
            }
            // harness-side facts about the situation the timeout fell into
            let parts: Vec<usize> = self.txs[t].ops.keys().copied().collect();
            if parts.iter().any(|s| self.txs[t].produced.get(s).map_or(true, Vec::is_empty)) {
                self.ctx.probe("timeout_before_participant_prepared");
            }
            if parts.iter().any(|s| self.txs[t].produced.get(s).is_some_and(|v| v.iter().any(|y| *y)) && !self.txs[t].yes_recorded.contains(s)) {
                self.ctx.probe("timeout_with_unrecorded_yes_vote");
            }
            self.decide(t, Dec::Abort, "timeout");
        }
    }

    /// `record_vote` returned `res` for the vote of `shard`; returns the phase the
    /// coordinator reported, if any (the caller makes the follow-up call).
    fn vote_result(&mut self, t: usize, shard: usize, yes: bool, res: Result<Option<TxPhase>, VoteRecordError>) -> Option<TxPhase> {
        // harness-side facts (independent of what the coordinator answered)
        if !self.txs[t].vote_handed.insert(shard) {
            self.ctx.probe("duplicate_vote");
        }
        if self.txs[t].decided_by == "timeout" {
            self.ctx.probe("vote_after_timeout");
        } else if self.txs[t].decision == Some(Dec::Commit) {
            self.ctx.probe("vote_after_commit");
        }
        // a No/Conflict vote counts against a later COMMIT only if the
        // coordinator accepted it; a participant that voted Yes and answers a
        // duplicate prepare with Conflict after its lock expired has its late
        // vote refused (DuplicateVote / WrongPhase / TxNotFound) and stays prepared
        if res.is_ok() {
            if yes {
                self.txs[t].yes_recorded.insert(shard);
            } else {
                self.txs[t].nonyes_delivered.insert(shard);
            }
        }
        let txt = match &res {
            Ok(p) => format!("Ok({p:?})"),
            Err(VoteRecordError::TxNotFound(_)) => "Err(TxNotFound)".into(),
            Err(VoteRecordError::WrongPhase { actual, .. }) => format!("Err(WrongPhase actual={actual:?})"),
            Err(VoteRecordError::DuplicateVote { .. }) => "Err(DuplicateVote)".into(),
        };
        self.ctx.event(&format!("record_vote(T{t}, s{shard}, {}) -> {txt}", if yes { "Yes" } else { "NotYes" }));
        self.ctx.fp(&format!("vote:{yes}:{}", txt.split('(').next().unwrap_or("")));
        match res {
            Ok(Some(TxPhase::Prepared)) => {
                self.txs[t].commit_pending = true;
                Some(TxPhase::Prepared)
            },
            Ok(Some(TxPhase::Aborting)) => {
                let all_yes = self.txs[t].nonyes_delivered.is_empty();
                if all_yes {
                    self.ctx.probe("all_yes_but_coordinator_refused");
                }
                self.decide(t, Dec::Abort, "votes");
                Some(TxPhase::Aborting)
            },
            Ok(p) => p,
            Err(VoteRecordError::DuplicateVote { .. }) => {
                self.ctx.probe("duplicate_vote_refused");
                None
            },
            Err(VoteRecordError::TxNotFound(_)) => None,
            Err(VoteRecordError::WrongPhase { .. }) => {
                self.ctx.probe("vote_in_wrong_phase");
                None
            },
        }
    }

    fn on_coord(&mut self, from: &str, msg: Message) {
        match msg {
            Message::TxPrepareResponse(r) => {
                let Some(&t) = self.by_raw.get(&r.tx_id) else {
                    return;
                };
                let yes = matches!(r.vote, TxVote::Yes { .. });
                let res = self.coord.record_vote(r.tx_id, r.shard_id, r.vote.clone().into());
                match self.vote_result(t, r.shard_id, yes, res) {
                    Some(TxPhase::Prepared) => {
                        if !self.case.defer_commit {
                            self.try_commit(t, "on-prepared");
                        }
                    },
                    Some(TxPhase::Aborting) => self.pump_aborts(),
                    _ => {},
                }
            },
            Message::TxAck(a) => {
                // as cluster.rs does; TxHandler always reports shard 0 (it does not
                // know its shard id) — acknowledgement tracking is not part of C03
                let _ = self.coord.handle_abort_ack(a.tx_id, a.shard_id);
                let _ = from;
            },
            _ => {},
        }
    }

    // ---- concurrent coordinator calls -------------------------------------

    /// the pick-th in-flight vote addressed to the coordinator
    fn take_vote(&mut self, pick: u16) -> Option<InFlight> {
        let mut g = self.net.lock().unwrap();
        let idx: Vec<usize> =
            g.inflight.iter().enumerate().filter(|(_, m)| m.to == COORD && matches!(m.msg, Message::TxPrepareResponse(_))).map(|(i, _)| i).collect();
        if idx.is_empty() {
            return None;
        }
        let i = idx[usize::from(pick) % idx.len()];
        Some(g.inflight.remove(i))
    }

    fn concurrent(&mut self, advance_ms: u32, threads: &[Vec<Call>], schedule: &[u8]) {
        if advance_ms > 0 {
            self.ctx.advance_ms(u64::from(advance_ms));
            self.ctx.event(&format!("advance {advance_ms}ms"));
            self.note_lock_expiry();
        }
        // resolve the calls against the world as it is now (kernel thread)
        let mut progs: Vec<Vec<RCall>> = Vec::new();
        for th in threads.iter().take(3) {
            let mut prog = Vec::new();
            for c in th.iter().take(4) {
                match c {
                    Call::Vote { pick } => {
                        let Some(m) = self.take_vote(*pick) else { continue };
                        let desc = self.describe(&m);
                        if self.cut_off(&m) {
                            self.ctx.event(&format!("lost to partition: {desc}"));
                            self.ctx.fault_fired("partition_loss");
                            continue;
                        }
                        if let Message::TxPrepareResponse(r) = m.msg {
                            if let Some(&t) = self.by_raw.get(&r.tx_id) {
                                prog.push(RCall::Vote { t, raw: r.tx_id, shard: r.shard_id, vote: r.vote, desc });
                            }
                        }
                    },
                    Call::Commit { tx } | Call::Abort { tx } => {
                        let t = usize::from(*tx);
                        if t < self.txs.len() && self.txs[t].started && !self.txs[t].begin_failed {
                            let raw = self.txs[t].raw;
                            prog.push(if matches!(c, Call::Commit { .. }) { RCall::Commit { t, raw } } else { RCall::Abort { t, raw } });
                        }
                    },
                    Call::Sweep => prog.push(RCall::Sweep),
                    Call::Pump => prog.push(RCall::Pump),
                }
            }
            if !prog.is_empty() {
                progs.push(prog);
            }
        }
        if progs.is_empty() {
            return;
        }
        for (i, prog) in progs.iter().enumerate() {
            let txt: Vec<String> = prog
                .iter()
                .map(|c| match c {
                    RCall::Vote { desc, .. } => format!("record_vote[{desc}]"),
                    RCall::Commit { t, .. } => format!("commit(T{t})"),
                    RCall::Abort { t, .. } => format!("abort(T{t})"),
                    RCall::Sweep => "cleanup_timeouts".into(),
                    RCall::Pump => "process_pending_aborts".into(),
                })
                .collect();
            self.ctx.event(&format!("concurrent: thread {i}: {}", txt.join("; ")));
        }
        self.ctx.fp(&format!("conc:{}", progs.len()));
        let n = progs.len();
        let total_calls: usize = progs.iter().map(Vec::len).sum();
        // outcomes in completion order: (thread, invocation tick, return tick, outcome)
        let outcomes: Arc<Mutex<Vec<(usize, u64, u64, Outcome)>>> = Arc::new(Mutex::new(Vec::new()));
        let tick = Arc::new(std::sync::atomic::AtomicU64::new(0));
        let defer = self.case.defer_commit;
        let bodies: Vec<sched::Body> = progs
            .iter()
            .cloned()
            .enumerate()
            .map(|(i, prog)| {
                let coord = self.coord.clone();
                let tr = self.coord_tr.clone();
                let out = outcomes.clone();
                let tick = tick.clone();
                Box::new(move || {
                    use std::sync::atomic::Ordering::SeqCst;
                    for c in prog {
                        let inv = tick.fetch_add(1, SeqCst);
                        match c {
                            RCall::Vote { t, raw, shard, vote, .. } => {
                                let yes = matches!(vote, TxVote::Yes { .. });
                                let res = coord.record_vote(raw, shard, vote.into());
                                let prepared = matches!(res, Ok(Some(TxPhase::Prepared)));
                                out.lock().unwrap().push((i, inv, tick.fetch_add(1, SeqCst), Outcome::Vote { t, shard, yes, res }));
                                if prepared && !defer {
                                    sched::yield_point("c03.op");
                                    let inv = tick.fetch_add(1, SeqCst);
                                    let res = coord.commit(raw).map_err(|e| e.to_string());
                                    out.lock().unwrap().push((i, inv, tick.fetch_add(1, SeqCst), Outcome::Commit { t, res, why: "on-prepared" }));
                                }
                            },
                            RCall::Commit { t, raw } => {
                                let res = coord.commit(raw).map_err(|e| e.to_string());
                                out.lock().unwrap().push((i, inv, tick.fetch_add(1, SeqCst), Outcome::Commit { t, res, why: "step" }));
                            },
                            RCall::Abort { t, raw } => {
                                let res = coord.abort(raw, "client abort").map_err(|e| e.to_string());
                                out.lock().unwrap().push((i, inv, tick.fetch_add(1, SeqCst), Outcome::Abort { t, res }));
                            },
                            RCall::Sweep => {
                                let listed = coord.cleanup_timeouts();
                                out.lock().unwrap().push((i, inv, tick.fetch_add(1, SeqCst), Outcome::Sweep { listed }));
                            },
                            RCall::Pump => {
                                now_or_never(coord.process_pending_aborts(&*tr));
                                out.lock().unwrap().push((i, inv, tick.fetch_add(1, SeqCst), Outcome::Pump));
                            },
                        }
                        sched::yield_point("c03.op");
                    }
                }) as sched::Body
            })
            .collect();
        // past the case's schedule every pick is STAY: a thread runs until it ends or
        // has to wait for a lock (the scheduler never re-picks a waiting thread
        // before another one made progress)
        let mark = self.inflight_len();
        let res = sched::run_threads(self.ctx, schedule, 2000 * (total_calls + 2), bodies);
        if res.exhausted {
            self.harness_error = Some(format!("concurrent step: schedule exhausted after {} steps", res.steps));
            return;
        }
        self.ctx.event(&format!("concurrent: threads done: steps={} switches={}", res.steps, res.switches));
        if n > 1 {
            self.ctx.probe("concurrent_step");
        }
        for (site, k) in &res.preempted_at {
            if *k > 0 {
                match *site {
                    "tensor_chain.lock" => self.ctx.probe("preempted_at_lock_acquisition"),
                    "tensor_chain.lock.wait" => self.ctx.probe("preempted_while_waiting_for_held_lock"),
                    _ => {},
                }
            }
        }
        let outs: Vec<(usize, u64, u64, Outcome)> = std::mem::take(&mut *outcomes.lock().unwrap());
        // probes: a commit call beside / overlapping a call that can abort the same transaction
        for (i, inv_a, ret_a, a) in &outs {
            let Outcome::Commit { t, .. } = a else { continue };
            for (j, inv_b, ret_b, b) in &outs {
                let rival = match b {
                    Outcome::Abort { t: tb, .. } => tb == t,
                    Outcome::Sweep { .. } => true,
                    _ => false,
                };
                if rival && i != j {
                    self.ctx.probe("commit_beside_abort_or_sweep");
                    if inv_a < ret_b && inv_b < ret_a {
                        self.ctx.probe("commit_overlapped_abort_or_sweep");
                    }
                }
            }
        }
        for (i, _, _, o) in outs {
            match o {
                Outcome::Vote { t, shard, yes, res } => {
                    self.ctx.event(&format!("[thread {i}]"));
                    let _ = self.vote_result(t, shard, yes, res);
                },
                Outcome::Commit { t, res, why } => {
                    self.ctx.event(&format!("[thread {i}]"));
                    self.commit_result(t, res, why, "commit");
                },
                Outcome::Abort { t, res } => {
                    self.ctx.event(&format!("[thread {i}]"));
                    self.abort_result(t, res, "abort-call");
                },
                Outcome::Sweep { listed } => {
                    self.ctx.event(&format!("[thread {i}]"));
                    self.swept(&listed);
                },
                Outcome::Pump => self.ctx.event(&format!("[thread {i}] process_pending_aborts")),
            }
        }
        if !res.panics.is_empty() {
            if res.panics.iter().any(|p| p.contains("HARNESS")) {
                self.harness_error = Some(format!("concurrent step: {:?}", res.panics));
            } else {
                self.violate("panic-in-2pc-code", format!("a coordinator call panicked in a concurrent step: {:?}", res.panics));
            }
            return;
        }
        // what the threads' process_pending_aborts sent; then the tick's own pump
        // (the commit/abort broadcasts above went in after `mark`, they are not TxAbort
        // batches of the coordinator and keep their place: only re-note, do not reorder)
        self.note_abort_sends(mark);
        self.pump_aborts();
    }

    fn note_abort_sends(&mut self, mark: usize) {
        let sent: Vec<(u64, String)> = {
            let g = self.net.lock().unwrap();
            g.inflight.iter().skip(mark).filter_map(|m| if let Message::TxAbort(a) = &m.msg { Some((a.tx_id, m.to.clone())) } else { None }).collect()
        };
        for (raw, to) in sent {
            if let (Some(&t), Some(s)) = (self.by_raw.get(&raw), Self::shard_of(&to)) {
                self.txs[t].abort_sent.insert(s);
            }
        }
    }

    // ---- coordinator restart (observation only) ----------------------------

    fn restart(&mut self) {
        self.tainted.get_or_insert(RESTART_LABEL);
        self.ctx.fault_fired("obs_coordinator_restart");
        for t in 0..self.txs.len() {
            if !self.txs[t].started || self.txs[t].begin_failed || self.txs[t].decision.is_some() {
                continue;
            }
            let n = self.txs[t].ops.len();
            let y = self.txs[t].yes_recorded.len();
            if y > 0 && y < n && self.txs[t].nonyes_delivered.is_empty() {
                self.ctx.probe("restart_with_partial_yes_votes");
            }
            if self.txs[t].commit_pending {
                self.ctx.probe("restart_between_prepared_and_commit");
            }
        }
        if self.coord_store.is_none() {
            self.coord_store = Some(TensorStore::new());
        }
        let Some(store) = self.coord_store.clone() else { return };
        if let Err(e) = self.coord.save_to_store(COORD, &store) {
            self.harness_error = Some(format!("restart: save_to_store failed: {e}"));
            return;
        }
        match DistributedTxCoordinator::load_from_store(COORD, &store, ConsensusManager::default_config(), DistributedTxConfig::default()) {
            Ok(c) => self.coord = Arc::new(c),
            Err(e) => {
                self.harness_error = Some(format!("restart: load_from_store failed: {e}"));
                return;
            },
        }
        let st = self.coord.recover();
        self.ctx.event(&format!(
            "OBS coordinator restart: recover -> pending_prepare={} pending_commit={} pending_abort={} timed_out={} completed={}",
            st.pending_prepare, st.pending_commit, st.pending_abort, st.timed_out, st.completed
        ));
        let mut dec: Vec<(usize, TxPhase)> = self.coord.get_pending_decisions().into_iter().filter_map(|(raw, ph)| self.by_raw.get(&raw).map(|t| (*t, ph))).collect();
        dec.sort_by_key(|d| d.0);
        for (t, ph) in dec {
            let raw = self.txs[t].raw;
            self.ctx.probe("restart_recovered_pending_decision");
            match ph {
                TxPhase::Committing => {
                    let res = self.coord.complete_commit(raw).map_err(|e| e.to_string());
                    self.commit_result(t, res, "recovery", "recovery");
                },
                TxPhase::Aborting => {
                    let res = self.coord.complete_abort(raw).map_err(|e| e.to_string());
                    self.abort_result(t, res, "recovery");
                },
                _ => {},
            }
        }
    }

    fn on_shard(&mut self, s: usize, from: &str, msg: Message) {
        let pre = dump_store(self.shards[s].part.store(), false);
        let was_prepared: BTreeSet<u64> = self.shards[s].part.get_awaiting_decision().into_iter().collect();
        let resp = self.shards[s].handler.handle(&from.to_string(), &msg);
        let post = dump_store(self.shards[s].part.store(), false);
        let changed = pre != post;
        match &msg {
            Message::TxPrepare(p) => {
                let Some(&t) = self.by_raw.get(&p.tx_id) else {
                    return;
                };
                let yes = matches!(&resp, Some(Message::TxPrepareResponse(r)) if matches!(r.vote, TxVote::Yes { .. }));
                if self.txs[t].produced.get(&s).is_some_and(|v| !v.is_empty()) {
                    self.ctx.probe("duplicate_prepare");
                }
                if !yes {
                    self.ctx.probe("lock_conflict_vote");
                }
                if self.txs[t].abort_delivered.contains(&s) && yes {
                    self.ctx.probe("prepare_after_abort_reprepared");
                }
                if self.txs[t].applied.contains(&s) && yes {
                    self.ctx.probe("prepare_after_commit_reprepared");
                }
                self.txs[t].produced.entry(s).or_default().push(yes);
                self.ctx.event(&format!("shard-{s} prepare(T{t}) -> {}", if yes { "Yes" } else { "NotYes" }));
                self.ctx.fp(&format!("prep:{yes}"));
                if changed {
                    // item 3 — "a participant's store changes for a transaction's keys
                    // only through TxParticipant::commit of that transaction"
                    self.violate(
                        "prepare-changed-store",
                        format!("shard-{s}: handling TxPrepare(T{t}) changed the store: before {} after {}", show(&pre), show(&post)),
                    );
                }
            },
            Message::TxCommit(c) => {
                let Some(&t) = self.by_raw.get(&c.tx_id) else {
                    return;
                };
                let ok = matches!(&resp, Some(Message::TxAck(a)) if a.success);
                self.txs[t].commit_delivered.insert(s);
                self.ctx.event(&format!("shard-{s} commit(T{t}) -> applied={ok}"));
                self.ctx.fp(&format!("commit:{ok}"));
                if ok {
                    if self.txs[t].applied.contains(&s) {
                        self.ctx.probe("committed_tx_applied_again");
                    }
                    self.txs[t].applied.insert(s);
                    self.ctx.probe("participant_applied");
                    if self.txs[t].decision != Some(Dec::Commit) {
                        // "No participant applies a transaction's writes unless the
                        // decision was commit."
                        self.violate(
                            "applied-without-commit-decision",
                            format!("shard-{s} applied T{t} while the coordinator's decision is {:?}", self.txs[t].decision),
                        );
                    }
                    let ops = self.txs[t].ops.get(&s).cloned().unwrap_or_default();
                    let mut want = self.shards[s].reference.clone();
                    apply_ops(&mut want, &ops);
                    if canon_ref(&want) != post {
                        // item 3 — the change made by the commit is the transaction's
                        // own writes on the store as it was, nothing else
                        self.violate(
                            "commit-applied-other-than-its-writes",
                            format!(
                                "shard-{s}: commit(T{t}) acknowledged success; store before {} ops {} expected after {} got {}",
                                show(&pre),
                                ops_str(&ops),
                                show(&canon_ref(&want)),
                                show(&post)
                            ),
                        );
                    }
                    // the reference follows what a COMMIT-decided transaction applied
                    if self.txs[t].decision == Some(Dec::Commit) {
                        self.shards[s].reference = want;
                    }
                } else if changed {
                    self.violate(
                        "refused-commit-changed-store",
                        format!("shard-{s}: TxCommit(T{t}) was refused but the store changed: before {} after {}", show(&pre), show(&post)),
                    );
                }
            },
            Message::TxAbort(a) => {
                let Some(&t) = self.by_raw.get(&a.tx_id) else {
                    return;
                };
                let had = was_prepared.contains(&a.tx_id);
                if self.txs[t].produced.get(&s).map_or(true, Vec::is_empty) {
                    self.ctx.probe("abort_to_never_prepared");
                }
                self.txs[t].abort_delivered.insert(s);
                self.ctx.event(&format!("shard-{s} abort(T{t}) had_prepared={had}"));
                self.ctx.fp(&format!("abort:{had}"));
                if had {
                    self.ctx.probe("participant_rolled_back");
                }
                if changed {
                    // item 5 — "Aborted and timed-out transactions leave every shard's
                    // data exactly as it was."
                    let after_expiry = if self.lock_expiry_seen { "+after-lock-expiry" } else { "" };
                    self.violate(
                        &format!("abort-changed-store{after_expiry}"),
                        format!(
                            "shard-{s}: handling TxAbort(T{t}) changed the store: before {} after {} (reference, committed transactions only: {})",
                            show(&pre),
                            show(&post),
                            show(&canon_ref(&self.shards[s].reference))
                        ),
                    );
                }
                if self.txs[t].applied.contains(&s) && self.txs[t].decision == Some(Dec::Commit) {
                    self.ctx.probe("abort_after_applied");
                }
            },
            _ => {},
        }
        if let Some(r) = resp {
            let tr = self.shards[s].transport.clone();
            self.send_from(&tr, from, r);
        }
    }

    fn take(&mut self, pick: u16) -> Option<InFlight> {
        let mut g = self.net.lock().unwrap();
        if g.inflight.is_empty() {
            return None;
        }
        let i = usize::from(pick) % g.inflight.len();
        Some(g.inflight.remove(i))
    }

    fn cut_off(&self, m: &InFlight) -> bool {
        [&m.from, &m.to].iter().any(|n| Self::shard_of(n).is_some_and(|s| self.partitioned.contains(&s)))
    }

    fn deliver(&mut self, m: InFlight) {
        let d = self.describe(&m);
        if self.cut_off(&m) {
            self.ctx.event(&format!("lost to partition: {d}"));
            self.ctx.fault_fired("partition_loss");
            return;
        }
        self.ctx.event(&format!("deliver {d}"));
        if m.to == COORD {
            self.on_coord(&m.from, m.msg);
        } else if let Some(s) = Self::shard_of(&m.to) {
            if s < self.shards.len() {
                self.on_shard(s, &m.from, m.msg);
            }
        }
    }

    fn note_races(&mut self) {
        // probes over the in-flight set
        let g = self.net.lock().unwrap();
        let mut commits: BTreeSet<u64> = BTreeSet::new();
        let mut aborts: BTreeSet<u64> = BTreeSet::new();
        for m in &g.inflight {
            match &m.msg {
                Message::TxCommit(c) => {
                    commits.insert(c.tx_id);
                },
                Message::TxAbort(a) => {
                    aborts.insert(a.tx_id);
                },
                _ => {},
            }
        }
        drop(g);
        if commits.intersection(&aborts).next().is_some() {
            self.ctx.probe("commit_and_abort_same_tx_in_flight");
        }
        if !commits.is_empty() && !aborts.is_empty() {
            self.ctx.probe("commit_and_abort_in_flight_together");
        }
    }

    fn note_lock_expiry(&mut self) {
        // probe: a participant still holds a prepared transaction whose locks expired
        for s in 0..self.shards.len() {
            let prepared = self.shards[s].part.get_awaiting_decision();
            for raw in prepared {
                if let Some(&t) = self.by_raw.get(&raw) {
                    let keys: Vec<String> = self.txs[t].ops.get(&s).map(|o| o.iter().map(|x| x.affected_key().to_string()).collect()).unwrap_or_default();
                    if !keys.is_empty() && keys.iter().all(|k| self.shards[s].part.locks.lock_holder(k).is_none()) {
                        self.ctx.probe("lock_expired_while_prepared");
                        self.lock_expiry_seen = true;
                    }
                }
            }
        }
    }

    fn step(&mut self, st: &Step) {
        match st {
            Step::Start { tx } => self.start(usize::from(*tx)),
            Step::Deliver { pick } => {
                if let Some(m) = self.take(*pick) {
                    self.deliver(m);
                }
            },
            Step::Drop { pick } => {
                if let Some(m) = self.take(*pick) {
                    self.ctx.event(&format!("drop {}", self.describe(&m)));
                    self.ctx.fault_fired("drop");
                    self.ctx.fp("drop");
                }
            },
            Step::Dup { pick } => {
                let mut g = self.net.lock().unwrap();
                if !g.inflight.is_empty() {
                    let i = usize::from(*pick) % g.inflight.len();
                    let mut m = g.inflight[i].clone();
                    g.next_id += 1;
                    m.id = g.next_id;
                    g.inflight.push(m.clone());
                    drop(g);
                    self.ctx.event(&format!("dup {}", self.describe(&m)));
                    self.ctx.fault_fired("duplicate");
                    self.ctx.fp("dup");
                }
            },
            Step::Delay { pick } => {
                let mut g = self.net.lock().unwrap();
                if g.inflight.len() > 1 {
                    let i = usize::from(*pick) % g.inflight.len();
                    let m = g.inflight.remove(i);
                    g.inflight.push(m.clone());
                    drop(g);
                    self.ctx.event(&format!("delay {}", self.describe(&m)));
                    self.ctx.fault_fired("delay_reorder");
                }
            },
            Step::Advance { ms } => {
                self.ctx.advance_ms(u64::from(*ms));
                self.ctx.event(&format!("advance {ms}ms"));
                self.note_lock_expiry();
            },
            Step::Sweep => self.sweep(),
            Step::Timeout => {
                self.ctx.advance_ms(DistributedTxConfig::default().prepare_timeout_ms + 1);
                self.ctx.event("timeout: advance past prepare_timeout_ms");
                self.note_lock_expiry();
                self.sweep();
            },
            Step::LockExpiry => {
                self.ctx.advance_ms(LOCK_TIMEOUT_MS + 1);
                self.ctx.event("advance past the participant lock timeout");
                self.ctx.fault_fired("lock_expiry_advance");
                self.note_lock_expiry();
            },
            Step::TryCommit { tx } => {
                let t = usize::from(*tx);
                if t < self.txs.len() && self.txs[t].started && !self.txs[t].begin_failed {
                    if self.txs[t].commit_pending {
                        self.ctx.probe("deferred_commit_call");
                    }
                    self.try_commit(t, "step");
                }
            },
            Step::Partition { shard } => {
                let s = usize::from(*shard) % self.shards.len();
                self.partitioned.insert(s);
                self.ctx.event(&format!("partition shard-{s}"));
            },
            Step::Heal => {
                if !self.partitioned.is_empty() {
                    self.partitioned.clear();
                    self.ctx.event("heal");
                }
            },
            Step::StaleSweep { shard, secs } => {
                let s = usize::from(*shard) % self.shards.len();
                let pre = dump_store(self.shards[s].part.store(), false);
                let removed = self.shards[s].part.cleanup_stale(Duration::from_secs(u64::from(*secs)));
                let post = dump_store(self.shards[s].part.store(), false);
                let mut ts: Vec<usize> = removed.iter().filter_map(|r| self.by_raw.get(r).copied()).collect();
                ts.sort_unstable();
                self.ctx.event(&format!("OBS shard-{s} cleanup_stale({secs}s) -> {ts:?} store_changed={}", pre != post));
                if !ts.is_empty() {
                    self.tainted.get_or_insert("participant presumed-abort sweep cleanup_stale");
                    self.ctx.fault_fired("obs_cleanup_stale");
                    let undecided_or_commit = ts.iter().any(|t| self.txs[*t].decision != Some(Dec::Abort));
                    let o = format!(
                        "observation(participant presumed-abort sweep cleanup_stale, outside C03's quantifier): discarded a prepared transaction whose decision was {}; store changed: {}",
                        if undecided_or_commit { "COMMIT or not yet made" } else { "ABORT" },
                        pre != post
                    );
                    if !self.observations.contains(&o) {
                        self.observations.push(o);
                    }
                    // the shard's store is what it is now; keep judging nothing further
                }
            },
            Step::WallBack { ms } => {
                self.ctx.step_wall_ms(-i64::from(*ms));
                self.tainted.get_or_insert("backwards step of the wall clock");
                self.ctx.fault_fired("obs_wall_clock_backwards");
                self.ctx.event(&format!("OBS wall clock stepped back {ms}ms"));
            },
            Step::Concurrent { advance_ms, threads, schedule } => self.concurrent(*advance_ms, threads, schedule),
            Step::Restart => self.restart(),
        }
        self.note_races();
    }

    fn drain(&mut self) {
        let mut guard = 0;
        while let Some(m) = self.take(0) {
            self.deliver(m);
            guard += 1;
            if guard > 2000 {
                self.harness_error = Some("tail: message storm".into());
                return;
            }
        }
    }

    /// Fault-free tail: every in-flight message is delivered (FIFO), pending
    /// driver calls are made, the coordinator's timeout sweep runs once more so
    /// that every started transaction is decided, and its aborts are delivered.
    fn tail(&mut self) {
        self.ctx.event("---- tail ----");
        if !self.case.tail_partitioned && !self.partitioned.is_empty() {
            self.partitioned.clear();
            self.ctx.event("heal");
        }
        self.drain();
        for t in 0..self.txs.len() {
            if self.txs[t].commit_pending {
                self.try_commit(t, "tail");
            }
        }
        self.drain();
        self.ctx.advance_ms(DistributedTxConfig::default().prepare_timeout_ms + 1);
        self.note_lock_expiry();
        self.sweep();
        self.drain();
    }

    fn final_checks(&mut self) {
        for t in 0..self.txs.len() {
            if !self.txs[t].started || self.txs[t].begin_failed {
                continue;
            }
            let parts: Vec<usize> = self.txs[t].ops.keys().copied().collect();
            if self.txs[t].decision == Some(Dec::Commit) && !self.txs[t].applied.is_empty() {
                // item 4 — "if one participant applied them no participant that voted
                // yes discards them, so the shards never end up split between applied
                // and rolled back"
                for s in &parts {
                    if self.txs[t].applied.contains(s) {
                        continue;
                    }
                    let voted_yes = self.txs[t].produced.get(s).is_some_and(|v| v.iter().any(|y| *y));
                    if !voted_yes {
                        continue;
                    }
                    let still = self.shards[*s].part.get_awaiting_decision().contains(&self.txs[t].raw);
                    if self.txs[t].commit_delivered.contains(s) {
                        self.violate(
                            "split-commit-delivered-not-applied",
                            format!(
                                "T{t}: applied on shards {:?}; shard-{s} voted Yes and was handed TxCommit but did not apply (still prepared: {still})",
                                self.txs[t].applied
                            ),
                        );
                    } else if !still {
                        // never handed the decision (lost): it must still be prepared
                        self.violate(
                            "split-yes-voter-discarded",
                            format!(
                                "T{t}: applied on shards {:?}; shard-{s} voted Yes, never received the decision and no longer holds the prepared transaction",
                                self.txs[t].applied
                            ),
                        );
                    } else {
                        self.ctx.probe("decision_lost_to_partition");
                    }
                }
            }
            if self.txs[t].decision == Some(Dec::Abort) {
                for s in &parts {
                    if self.shards[*s].part.get_awaiting_decision().contains(&self.txs[t].raw) {
                        if self.txs[t].abort_delivered.contains(s) {
                            self.ctx.probe("aborted_tx_left_prepared_after_late_prepare");
                        } else if self.txs[t].abort_sent.contains(s) {
                            // sent and lost on the way: loss is in the quantifier and the
                            // text demands no retransmission
                            self.ctx.probe("abort_lost_participant_left_prepared");
                        } else if !self.txs[t].yes_before_decision.contains(s) {
                            // it prepared only after the decision (late prepare): an abort
                            // sent at decision time could have overtaken the prepare as well
                            self.ctx.probe("aborted_tx_prepared_late_never_told");
                        } else {
                            // item 6 — "every participant reaches the coordinator's one
                            // decision", in its weakest form: a participant that holds the
                            // transaction prepared can reach the ABORT decision only if the
                            // decision is at least addressed to it. Whether the message then
                            // arrives is the network's business (loss is in the quantifier);
                            // here none was ever sent, so no delivery order lets it reach it.
                            self.violate(
                                "abort-decision-never-sent-to-prepared-participant",
                                format!(
                                    "T{t}: the coordinator decided Abort (by {}); shard-{s} had voted Yes before that and still holds the transaction prepared (with its key locks), and no TxAbort(T{t}) was ever addressed to it (addressed to shards {:?})",
                                    self.txs[t].decided_by, self.txs[t].abort_sent
                                ),
                            );
                        }
                    }
                }
            }
            if self.txs[t].decision.is_none() {
                self.ctx.probe("undecided_after_tail");
            }
        }
        // item 5 — "Aborted and timed-out transactions leave every shard's data
        // exactly as it was": each store equals the reference map, which only
        // commits of COMMIT-decided transactions updated.
        for s in 0..self.shards.len() {
            let got = dump_store(self.shards[s].part.store(), false);
            let want = canon_ref(&self.shards[s].reference);
            if got != want {
                self.violate(
                    "store-differs-from-committed-reference",
                    format!("shard-{s}: store {} reference {}", show(&got), show(&want)),
                );
            }
        }
    }
}

fn ops_str(ops: &[Transaction]) -> String {
    let mut s = String::from("[");
    for o in ops {
        match o {
            Transaction::Put { key, data } => s.push_str(&format!("Put({key}={}) ", String::from_utf8_lossy(data))),
            Transaction::Delete { key } => s.push_str(&format!("Del({key}) ")),
            Transaction::CompareAndSwap { key, expected_data, new_data } => s.push_str(&format!(
                "Cas({key}: {:?} -> {}) ",
                String::from_utf8_lossy(expected_data),
                String::from_utf8_lossy(new_data)
            )),
            _ => s.push_str("other "),
        }
    }
    s.push(']');
    s
}

fn gen_tx(rng: &mut Rng, shards: u8, nkeys: u8, overlap_emb: bool) -> TxSpec {
    let np = if shards <= 2 || rng.chance(1, 2) { 2 } else { 3 };
    let mut ids: Vec<u8> = (0..shards).collect();
    // choose np distinct shards
    while ids.len() > np {
        let i = rng.usize_below(ids.len());
        ids.remove(i);
    }
    let parts = ids
        .into_iter()
        .enumerate()
        .map(|(i, shard)| {
            let nops = if rng.chance(1, 4) { 2 } else { 1 };
            let ops = (0..nops)
                .map(|_| {
                    let k = rng.below(u64::from(nkeys)) as u8;
                    match rng.below(10) {
                        0..=5 => OpSpec::Put { k },
                        6..=7 => OpSpec::Del { k },
                        _ => OpSpec::Cas { k, expect: rng.below(3) as u8 },
                    }
                })
                .collect();
            PartSpec { shard, ops, emb: if overlap_emb { 0 } else { i as u8 } }
        })
        .collect();
    TxSpec { parts }
}

/// A `Concurrent` step: 1-3 threads with 1-3 coordinator calls each. In a
/// fault-free run the clock is not advanced (no timeout fires) but the calls
/// still race.
fn gen_concurrent(rng: &mut Rng, ntx: usize, stickiness: u64, fault_free: bool) -> Step {
    let nthreads = *rng.pick(&[1usize, 2, 2, 2, 3, 3]);
    let advance_ms = if fault_free { 0 } else { *rng.pick(&[0u32, 0, 0, 1000, 2600, 5001, 5001]) };
    let threads: Vec<Vec<Call>> = (0..nthreads)
        .map(|_| {
            let ncalls = rng.range(1, 3) as usize;
            (0..ncalls)
                .map(|_| match rng.below(20) {
                    0..=7 => Call::Vote { pick: rng.below(6) as u16 },
                    8..=10 => Call::Commit { tx: rng.below(ntx as u64) as u8 },
                    11..=13 => Call::Abort { tx: rng.below(ntx as u64) as u8 },
                    14..=17 => Call::Sweep,
                    _ => Call::Pump,
                })
                .collect()
        })
        .collect();
    let schedule = if nthreads == 1 { Vec::new() } else { sched::gen_schedule(rng, 40, stickiness) };
    Step::Concurrent { advance_ms, threads, schedule }
}

impl Scenario for C03 {
    type Case = Case;
    fn id(&self) -> &'static str {
        "C03"
    }
    fn level(&self) -> &'static str {
        "exploration"
    }
    fn runs(&self, tier: Tier) -> u64 {
        match tier {
            Tier::Quick => 40_000,
            Tier::Thorough => 1_200_000,
        }
    }

    fn generate(&self, rng: &mut Rng, _tier: Tier, index: u64) -> Case {
        let shards = rng.range(2, 3) as u8;
        let ntx = rng.range(1, 3) as usize;
        // few keys => overlapping transactions; many => disjoint ones
        let nkeys = *rng.pick(&[1u8, 1, 2, 2, 3, 4]);
        let init_mask = rng.next_u64() as u16 & 0x0fff;
        let txs: Vec<TxSpec> = (0..ntx)
            .map(|_| {
                let overlap = rng.chance(1, 12);
                gen_tx(rng, shards, nkeys, overlap)
            })
            .collect();
        // swarm: each fault kind is enabled in a random subset of runs; every 8th
        // run is fault-free (deliveries in random order only)
        let fault_free = index % 8 == 0;
        let on = |rng: &mut Rng, num: u64, den: u64| !fault_free && rng.chance(num, den);
        let w_drop = if on(rng, 1, 2) { rng.range(2, 12) } else { 0 };
        let w_dup = if on(rng, 1, 2) { rng.range(2, 12) } else { 0 };
        let w_delay = if on(rng, 1, 2) { rng.range(2, 10) } else { 0 };
        let w_timeout = if on(rng, 1, 2) { rng.range(1, 6) } else { 0 };
        let w_expiry = if on(rng, 1, 2) { rng.range(1, 6) } else { 0 };
        let w_adv = if on(rng, 1, 3) { rng.range(1, 5) } else { 0 };
        let w_sweep = if on(rng, 1, 3) { rng.range(1, 5) } else { 0 };
        let w_trycommit = if on(rng, 1, 3) { rng.range(1, 5) } else { 0 };
        let w_part = if on(rng, 1, 4) { rng.range(1, 4) } else { 0 };
        // concurrent coordinator calls: in about a quarter of the runs (also in
        // otherwise fault-free ones: an interleaving is not a fault)
        let w_conc = if rng.chance(1, 4) { rng.range(2, 7) } else { 0 };
        let conc_stick = *rng.pick(&[0u64, 30, 60, 85]);
        // observation configurations: about 1 run in 16
        let observe = !fault_free && rng.chance(1, 16);
        let w_obs = if observe { rng.range(1, 4) } else { 0 };
        // one observation kind per run, so the label of an observation is exact
        // (0 = participant presumed-abort sweep, 1 = wall clock backwards, 2 = coordinator restart)
        let obs_kind = *rng.pick(&[0u8, 0, 0, 1, 2, 2, 2, 2]);
        let defer_commit = on(rng, 1, 5);
        let tail_partitioned = w_part > 0 && rng.chance(1, 2);
        let fifo_bias = rng.chance(1, 2);
        let w_deliver = rng.range(20, 60);
        let n_steps = rng.range(8, MAX_STEPS as u64 - 10) as usize;
        // start positions: the first at 0, the others anywhere in the first 2/3
        let mut starts: Vec<(usize, u8)> = (0..ntx).map(|t| (if t == 0 { 0 } else { rng.usize_below(n_steps * 2 / 3 + 1) }, t as u8)).collect();
        starts.sort_unstable();
        let total = w_deliver + w_drop + w_dup + w_delay + w_timeout + w_expiry + w_adv + w_sweep + w_trycommit + w_part + w_conc + w_obs;
        let mut steps = Vec::new();
        for i in 0..n_steps {
            for (at, t) in &starts {
                if *at == i {
                    steps.push(Step::Start { tx: *t });
                }
            }
            let pick = |rng: &mut Rng| if fifo_bias && rng.chance(2, 3) { 0u16 } else { rng.below(12) as u16 };
            let mut r = rng.below(total);
            let mut take = |w: u64| {
                if r < w {
                    true
                } else {
                    r -= w;
                    false
                }
            };
            let st = if take(w_deliver) {
                Step::Deliver { pick: pick(rng) }
            } else if take(w_drop) {
                Step::Drop { pick: rng.below(12) as u16 }
            } else if take(w_dup) {
                Step::Dup { pick: rng.below(12) as u16 }
            } else if take(w_delay) {
                Step::Delay { pick: rng.below(12) as u16 }
            } else if take(w_timeout) {
                Step::Timeout
            } else if take(w_expiry) {
                Step::LockExpiry
            } else if take(w_adv) {
                Step::Advance { ms: *rng.pick(&[1u32, 50, 1000, 2600, 4999, 5001, 15_000, 29_999]) }
            } else if take(w_sweep) {
                Step::Sweep
            } else if take(w_trycommit) {
                Step::TryCommit { tx: rng.below(ntx as u64) as u8 }
            } else if take(w_part) {
                if rng.chance(2, 3) {
                    Step::Partition { shard: rng.below(u64::from(shards)) as u8 }
                } else {
                    Step::Heal
                }
            } else if take(w_conc) {
                gen_concurrent(rng, ntx, conc_stick, fault_free)
            } else if obs_kind == 0 {
                Step::StaleSweep { shard: rng.below(u64::from(shards)) as u8, secs: *rng.pick(&[0u16, 1, 30, 60]) }
            } else if obs_kind == 1 {
                Step::WallBack { ms: *rng.pick(&[10u32, 6000, 40_000]) }
            } else {
                Step::Restart
            };
            steps.push(st);
        }
        Case { shards, init_mask, txs, defer_commit, tail_partitioned, steps }
    }

    fn run(&self, case: &Case, ctx: &Arc<RunCtx>) -> RunOut {
        // threads of a Concurrent step switch only at this scenario's own sites and at
        // tensor_chain's lock acquisitions (see sched::Baton::allow)
        sched::set_allowed_sites(&["c03.", "tensor_chain."]);
        let mut out = RunOut::default();
        let mut w = World::new(ctx, case);
        ctx.event(&format!(
            "C03 shards={} txs={} defer_commit={} tail_partitioned={} init={:#05x}",
            w.shards.len(),
            case.txs.len(),
            case.defer_commit,
            case.tail_partitioned,
            case.init_mask
        ));
        ctx.fp(&format!("cfg:{}:{}:{}", w.shards.len(), case.txs.len(), case.defer_commit));
        let res = std::panic::catch_unwind(std::panic::AssertUnwindSafe(|| {
            for st in case.steps.iter().take(MAX_STEPS) {
                w.step(st);
                if w.violation.is_some() || w.harness_error.is_some() {
                    return;
                }
            }
            w.tail();
            if w.violation.is_none() && w.harness_error.is_none() {
                w.final_checks();
            }
        }));
        if let Err(p) = res {
            let msg = p.downcast_ref::<String>().cloned().or_else(|| p.downcast_ref::<&str>().map(|s| (*s).to_string())).unwrap_or_else(|| "panic".into());
            if msg.starts_with("HARNESS") {
                out.harness_error = Some(msg);
                return out;
            }
            // a panic inside the coordinator, a participant or the handler
            if w.tainted.is_some() {
                w.observations.push(format!("observation({}, outside C03's quantifier): panic in the code under test: {}", w.tainted.unwrap_or(""), first_line(&msg)));
            } else {
                w.violation = Some(Violation { class: "panic-in-2pc-code".into(), detail: msg });
            }
        }
        let decided = w.txs.iter().filter(|t| t.decision.is_some()).count();
        let reached = w.txs.iter().any(|t| !t.commit_delivered.is_empty() || !t.abort_delivered.is_empty());
        out.nontrivial = decided > 0 && reached;
        out.harness_error = w.harness_error.take();
        out.violation = w.violation.take();
        out.observations = std::mem::take(&mut w.observations);
        if w.tainted.is_some() && out.observations.is_empty() {
            out.observations.push(format!("observation({}, outside C03's quantifier): no oracle item affected", w.tainted.unwrap_or("")));
        }
        out
    }

    fn shrink(&self, case: &Case) -> Vec<Case> {
        let mut v = Vec::new();
        for steps in drop_chunks(&case.steps) {
            let mut c = case.clone();
            c.steps = steps;
            v.push(c);
        }
        // flags
        if case.defer_commit {
            let mut c = case.clone();
            c.defer_commit = false;
            v.push(c);
        }
        if case.tail_partitioned {
            let mut c = case.clone();
            c.tail_partitioned = false;
            v.push(c);
        }
        if case.shards > 2 {
            let mut c = case.clone();
            c.shards = 2;
            v.push(c);
        }
        // fewer initial keys
        if case.init_mask != 0 {
            let mut c = case.clone();
            c.init_mask = 0;
            v.push(c);
            for b in 0..12 {
                if case.init_mask >> b & 1 == 1 {
                    let mut c = case.clone();
                    c.init_mask &= !(1 << b);
                    v.push(c);
                }
            }
        }
        // transactions never started can go (indices of the others are kept)
        let started: BTreeSet<u8> = case.steps.iter().filter_map(|s| if let Step::Start { tx } = s { Some(*tx) } else { None }).collect();
        if let Some(last) = case.txs.len().checked_sub(1) {
            if !started.contains(&(last as u8)) {
                let mut c = case.clone();
                c.txs.pop();
                v.push(c);
            }
        }
        // simpler transactions: fewer participants, fewer / simpler operations
        for (t, tx) in case.txs.iter().enumerate() {
            if tx.parts.len() > 1 {
                for i in 0..tx.parts.len() {
                    let mut c = case.clone();
                    c.txs[t].parts.remove(i);
                    v.push(c);
                }
            }
            for (i, p) in tx.parts.iter().enumerate() {
                if p.ops.len() > 1 {
                    for j in 0..p.ops.len() {
                        let mut c = case.clone();
                        c.txs[t].parts[i].ops.remove(j);
                        v.push(c);
                    }
                }
                for (j, o) in p.ops.iter().enumerate() {
                    if !matches!(o, OpSpec::Put { .. }) {
                        let mut c = case.clone();
                        c.txs[t].parts[i].ops[j] = OpSpec::Put { k: o.k() };
                        v.push(c);
                    }
                    if o.k() != 0 {
                        let mut c = case.clone();
                        c.txs[t].parts[i].ops[j] = match o {
                            OpSpec::Put { .. } => OpSpec::Put { k: 0 },
                            OpSpec::Del { .. } => OpSpec::Del { k: 0 },
                            OpSpec::Cas { expect, .. } => OpSpec::Cas { k: 0, expect: *expect },
                        };
                        v.push(c);
                    }
                }
            }
        }
        // simpler steps
        for (i, st) in case.steps.iter().enumerate() {
            let simpler = match st {
                Step::Deliver { pick } if *pick != 0 => Some(Step::Deliver { pick: 0 }),
                Step::Drop { pick } if *pick != 0 => Some(Step::Drop { pick: 0 }),
                Step::Dup { pick } if *pick != 0 => Some(Step::Dup { pick: 0 }),
                Step::Delay { pick } if *pick != 0 => Some(Step::Delay { pick: 0 }),
                Step::LockExpiry => Some(Step::Timeout),
                Step::Timeout => Some(Step::Sweep),
                _ => None,
            };
            if let Some(s) = simpler {
                let mut c = case.clone();
                c.steps[i] = s;
                v.push(c);
            }
            if let Step::Concurrent { advance_ms, threads, schedule } = st {
                let mut push = |advance_ms: u32, threads: Vec<Vec<Call>>, schedule: Vec<u8>| {
                    let mut c = case.clone();
                    c.steps[i] = Step::Concurrent { advance_ms, threads, schedule };
                    v.push(c);
                };
                // fewer threads, fewer calls, no clock advance, a shorter / stickier schedule
                if threads.len() > 1 {
                    for j in 0..threads.len() {
                        let mut th = threads.clone();
                        th.remove(j);
                        push(*advance_ms, th, schedule.clone());
                    }
                }
                for (j, th) in threads.iter().enumerate() {
                    if th.len() > 1 {
                        for k in 0..th.len() {
                            let mut ths = threads.clone();
                            ths[j].remove(k);
                            push(*advance_ms, ths, schedule.clone());
                        }
                    }
                    for (k, call) in th.iter().enumerate() {
                        if let Call::Vote { pick } = call {
                            if *pick != 0 {
                                let mut ths = threads.clone();
                                ths[j][k] = Call::Vote { pick: 0 };
                                push(*advance_ms, ths, schedule.clone());
                            }
                        }
                    }
                }
                if *advance_ms != 0 {
                    push(0, threads.clone(), schedule.clone());
                }
                if !schedule.is_empty() {
                    push(*advance_ms, threads.clone(), Vec::new());
                    push(*advance_ms, threads.clone(), schedule[..schedule.len() / 2].to_vec());
                    let mut trimmed = schedule.clone();
                    while trimmed.last() == Some(&sched::STAY) {
                        trimmed.pop();
                    }
                    if trimmed.len() < schedule.len() {
                        push(*advance_ms, threads.clone(), trimmed);
                    }
                    for (k, p) in schedule.iter().enumerate() {
                        if *p != sched::STAY {
                            let mut sc = schedule.clone();
                            sc[k] = sched::STAY;
                            push(*advance_ms, threads.clone(), sc);
                        }
                    }
                }
            }
        }
        v
    }

    fn required_probes(&self) -> Vec<&'static str> {
        vec![
            "decided_commit",
            "decided_abort",
            "participant_applied",
            "participant_rolled_back",
            "vote_after_timeout",
            "duplicate_vote",
            "duplicate_prepare",
            "lock_conflict_vote",
            "lock_expired_while_prepared",
            // facts about the situation a timeout fell into, taken on the harness side
            // (whether the coordinator then addresses its abort to such a participant is
            // the code's behaviour: `abort_to_never_prepared` is counted, not required)
            "timeout_before_participant_prepared",
            "timeout_with_unrecorded_yes_vote",
            "decision_lost_to_partition",
            "commit_and_abort_in_flight_together",
            // concurrent coordinator calls
            "concurrent_step",
            "preempted_at_lock_acquisition",
            "commit_overlapped_abort_or_sweep",
            "abort_call_accepted",
            "abort_call_between_prepared_and_commit",
            // observation configuration: coordinator restart
            "restart_with_partial_yes_votes",
            "restart_between_prepared_and_commit",
            "restart_recovered_pending_decision",
        ]
    }
    fn rule(&self) -> String {
        "A case is 2-3 shards with a generated initial content, 1-3 transactions (2-3 participants each, 1-2 Put/Delete/CompareAndSwap operations per participant over 1-4 key names, so transactions overlap or are disjoint) and an explicit list of <=120 steps: start a transaction, deliver/drop/duplicate/delay the pick-th in-flight message, advance the clock, coordinator timeout sweep, advance past the participants' 30 s lock timeout, an extra commit() call by the driver, partition/heal of a shard, and (in a quarter of the runs) Concurrent steps in which 1-3 scheduled threads issue 1-3 coordinator calls each (record_vote of an in-flight vote followed by commit on Prepared, commit, abort, cleanup_timeouts, process_pending_aborts; thread switches at the coordinator's lock acquisitions under a generated schedule, optionally after advancing the clock past the prepare timeout); then a fault-free tail delivers everything, makes the deferred commit calls, runs one more timeout sweep and delivers its aborts. Fault kinds are enabled per run in a random subset (every 8th run has deliveries only). Non-trivial: at least one transaction was decided and at least one TxCommit or TxAbort was handled by a participant. Distinct: hash of the sequence of (event kind, outcome class) — starts, votes produced, record_vote results, decisions and who made them, commit/abort handling outcomes, drops, duplicates.".into()
    }
    fn components(&self) -> Value {
        json!({
            "real": [
                "tensor_chain::distributed_tx::DistributedTxCoordinator (begin, record_vote, commit, abort, cleanup_timeouts, process_pending_aborts, handle_abort_ack; no WAL; called from 1-3 baton threads in Concurrent steps; save_to_store/load_from_store/recover/get_pending_decisions/complete_commit/complete_abort in observation runs)",
                "tensor_chain::distributed_tx::TxParticipant (prepare, commit, abort; cleanup_stale in observation runs) with its LockManager",
                "tensor_chain::network::TxHandler (Message in -> Message out), TxPrepareMsg/TxPrepareResponseMsg/TxCommitMsg/TxAbortMsg/TxAckMsg and the TxVote<->PrepareVote conversions",
                "tensor_store::TensorStore (one per shard, in memory)",
                "tensor_chain::tx_id::generate_tx_id"
            ],
            "simulated": ["network: net::SimTransport, delivery order/loss/duplication/partition decided by the step list", "thread interleaving of concurrent coordinator calls: sched::run_threads over tensor_chain's sync_compat lock acquisitions, schedule in the case", "CLOCK_REALTIME / CLOCK_MONOTONIC (interposed)", "getrandom (interposed)"],
            "stub": ["the transaction driver (begin -> TxPrepare; vote -> record_vote; Prepared -> commit -> TxCommit; Aborting/timeout -> process_pending_aborts; client cancel: abort -> Ok -> TxAbort to every participant): the repository has no component that drives a transaction over the network"]
        })
    }
    fn assumptions(&self) -> Vec<String> {
        vec![
            "the driver calls commit() as soon as record_vote returns Prepared, or (defer_commit) at a later step; it sends TxCommit exactly once per participant and never retries".into(),
            "operations are Put/Delete/CompareAndSwap on plain keys; the sequential meaning of an operation list (CAS compares against empty bytes for an absent key) is taken from TxParticipant::apply_operations and is not judged here".into(),
            "two COMMIT-decided transactions applied on a shard in either order are both accepted (isolation/serialisability after lock expiry is not part of C03); the reference map follows the order in which the shard applied them".into(),
            "a participant left holding a prepared transaction whose decision was ABORT because the abort was lost, or the prepare was delivered after the abort, is counted by a probe, not judged: the property demands no retransmission".into(),
            "participant crash/restart is not part of this scenario; a coordinator restart is not in C03's quantifier (it lists loss, duplication, reordering, coordinator timeouts, late and duplicate votes, concurrent transactions) and is C13's subject: the graceful restart through save_to_store/load_from_store/recover runs only as a labelled observation".into(),
            "cleanup_stale, backwards wall-clock steps and coordinator restarts run only in labelled observation runs; once one took effect the run reports observations (the class of every oracle item that would have fired), never a violation".into(),
            "in a Concurrent step the participants do not run; the votes handed to record_vote are messages already in flight, the commit/abort broadcasts of the stub are sent after the threads have finished, in the order in which the calls returned".into(),
            "'every participant reaches the coordinator's one decision' is judged in its weakest form: a participant still holding an ABORT-decided transaction prepared after the fault-free tail is a violation only if it had voted Yes before the decision and no TxAbort for the transaction was ever addressed to it; a TxAbort that was sent and lost (or overtaken by a late prepare) is counted by a probe".into(),
        ]
    }
}

fn first_line(s: &str) -> String {
    s.lines().next().unwrap_or("").chars().take(160).collect()
}
