//! Search driver: runs many seeded simulated executions on all cores, stops at
//! the first violation that is not a listed known finding, minimises it,
//! writes the replay file, proves the replay reproduces it in a fresh process,
//! and writes the evidence file.

use crate::ctx::{install, RunCtx, RunTotals};
use crate::rng::{hash_str, mix, Rng};
use serde::{de::DeserializeOwned, Deserialize, Serialize};
use serde_json::{json, Value};
use std::collections::{BTreeMap, BTreeSet};
use std::sync::atomic::{AtomicBool, AtomicU64, Ordering};
use std::sync::{mpsc, Arc, Mutex};
use std::time::{Duration, Instant};

#[derive(Clone, Copy, PartialEq, Eq, Debug)]
pub enum Tier {
    Quick,
    Thorough,
}

impl Tier {
    pub fn name(self) -> &'static str {
        match self {
            Tier::Quick => "quick",
            Tier::Thorough => "thorough",
        }
    }
}

#[derive(Clone, Debug, Serialize, Deserialize, PartialEq)]
pub struct Violation {
    /// stable identity of the violation: invariant id + subject shape
    pub class: String,
    pub detail: String,
}

#[derive(Clone, Debug, Default)]
pub struct RunOut {
    pub violation: Option<Violation>,
    /// the run reached the scenario's progress probe
    pub nontrivial: bool,
    /// inner enumerated evaluations (e.g. crash points), 0 if none
    pub inner_evals: u64,
    /// outcomes of labelled observation configurations (never verdicts)
    pub observations: Vec<String>,
    /// harness problem detected by the scenario (exit 2)
    pub harness_error: Option<String>,
    /// an equivalent, more direct case for the same violation (e.g. the one
    /// failing crash point of an enumeration), used as the start of minimisation
    pub reduced: Option<Value>,
}

impl RunOut {
    pub fn violation(class: impl Into<String>, detail: impl Into<String>) -> Self {
        RunOut { violation: Some(Violation { class: class.into(), detail: detail.into() }), nontrivial: true, ..Default::default() }
    }
}

pub trait Scenario: Sync + Send + 'static {
    type Case: Serialize + DeserializeOwned + Clone + Send + std::fmt::Debug + 'static;
    fn id(&self) -> &'static str;
    fn level(&self) -> &'static str;
    fn runs(&self, tier: Tier) -> u64;
    fn generate(&self, rng: &mut Rng, tier: Tier, index: u64) -> Self::Case;
    fn run(&self, case: &Self::Case, ctx: &Arc<RunCtx>) -> RunOut;
    /// candidates strictly simpler than `case`, most aggressive first
    fn shrink(&self, case: &Self::Case) -> Vec<Self::Case>;
    fn required_probes(&self) -> Vec<&'static str> {
        Vec::new()
    }
    fn rule(&self) -> String;
    fn components(&self) -> Value;
    fn assumptions(&self) -> Vec<String>;
    /// per-run wall-clock watchdog
    fn watchdog_secs(&self) -> u64 {
        300
    }
}

/// ddmin-style candidates over a list: drop halves, quarters, ..., single items.
pub fn drop_chunks<T: Clone>(xs: &[T]) -> Vec<Vec<T>> {
    let n = xs.len();
    let mut out = Vec::new();
    if n == 0 {
        return out;
    }
    let mut chunk = n.div_ceil(2);
    loop {
        let mut start = 0;
        while start < n {
            let end = (start + chunk).min(n);
            let mut v = Vec::with_capacity(n - (end - start));
            v.extend_from_slice(&xs[..start]);
            v.extend_from_slice(&xs[end..]);
            if v.len() < n {
                out.push(v);
            }
            start = end;
        }
        if chunk == 1 {
            break;
        }
        chunk = chunk.div_ceil(2);
    }
    out
}

static RUN_SEQ: AtomicU64 = AtomicU64::new(0);

pub struct Exec {
    pub out: RunOut,
    pub totals: RunTotals,
}

/// Execute one case on a fresh OS thread with a fresh context and scratch dir.
pub fn exec_case<S: Scenario>(scn: &Arc<S>, case: &S::Case, seed: u64, keep_log: bool) -> Result<Exec, String> {
    let seq = RUN_SEQ.fetch_add(1, Ordering::Relaxed);
    let root = format!("/dev/shm/nsim-{}/{}-{}", std::process::id(), scn.id(), seq);
    std::fs::create_dir_all(&root).map_err(|e| format!("scratch dir {root}: {e}"))?;
    let (tx, rx) = mpsc::channel();
    let scn2 = scn.clone();
    let case2 = case.clone();
    let root2 = root.clone();
    let h = std::thread::Builder::new()
        .name("sim-run".into())
        .stack_size(16 << 20)
        .spawn(move || {
            let ctx = RunCtx::new(seed, root2, keep_log);
            let r = {
                let _inst = install(&ctx);
                std::panic::catch_unwind(std::panic::AssertUnwindSafe(|| scn2.run(&case2, &ctx)))
            };
            let totals = ctx.finish();
            let _ = tx.send((r, totals));
        })
        .map_err(|e| format!("spawn: {e}"))?;
    let res = rx.recv_timeout(Duration::from_secs(scn.watchdog_secs()));
    let out = match res {
        Ok((Ok(out), totals)) => {
            let _ = h.join();
            Ok(Exec { out, totals })
        },
        Ok((Err(p), totals)) => {
            let _ = h.join();
            let msg = if let Some(s) = p.downcast_ref::<String>() {
                s.clone()
            } else if let Some(s) = p.downcast_ref::<&str>() {
                (*s).to_string()
            } else {
                "panic".into()
            };
            // a panic escaping the scenario is reported as such; scenarios that
            // consider a panic in /repo code a verdict catch it themselves.
            let mut out = RunOut::default();
            out.harness_error = Some(format!("panic in run thread: {msg}"));
            Ok(Exec { out, totals })
        },
        Err(_) => Err(format!("watchdog: run did not finish within {}s", scn.watchdog_secs())),
    };
    let _ = std::fs::remove_dir_all(&root);
    out
}

#[derive(Serialize, Deserialize, Clone, Debug)]
pub struct ReplayFile {
    pub property: String,
    pub seed: u64,
    pub case: Value,
    pub violation: Violation,
    pub digest: u64,
    pub note: String,
}

#[derive(Deserialize, Clone, Debug)]
pub struct KnownFinding {
    pub property: String,
    /// exact violation class this entry identifies
    pub class: String,
    /// "known" suppresses (prints KNOWN-FINDING); "fixed" suppresses nothing
    pub status: String,
    pub what: String,
    #[serde(default)]
    pub commit: Option<String>,
}

pub fn load_known(dir: &str) -> Vec<KnownFinding> {
    let p = format!("{dir}/known_findings.json");
    match std::fs::read_to_string(&p) {
        Ok(s) => match serde_json::from_str::<Value>(&s) {
            Ok(v) => v
                .get("findings")
                .and_then(|f| serde_json::from_value::<Vec<KnownFinding>>(f.clone()).ok())
                .unwrap_or_default(),
            Err(e) => {
                eprintln!("HARNESS: cannot parse {p}: {e}");
                std::process::exit(2);
            },
        },
        Err(_) => Vec::new(),
    }
}

pub struct Opts {
    pub tier: Tier,
    pub seed: u64,
    pub jobs: usize,
    pub verif_dir: String,
    pub runs_override: Option<u64>,
    pub max_wall: Duration,
    pub no_shrink: bool,
}

struct Agg {
    evaluations: u64,
    inner_evals: u64,
    nontrivial: u64,
    fingerprints: BTreeSet<u64>,
    probes: BTreeMap<String, u64>,
    faults: BTreeMap<String, u64>,
    sim_ns: u128,
    samples: Vec<Value>,
    observations: BTreeMap<String, u64>,
    known_hits: BTreeMap<String, u64>,
    digests: BTreeMap<u64, (u64, Option<String>)>,
    untracked: u64,
}

fn class_known(known: &[KnownFinding], prop: &str, class: &str) -> Option<KnownFinding> {
    known.iter().find(|k| k.property == prop && k.status == "known" && k.class == class).cloned()
}

pub fn case_seed(seed: u64, prop: &str, idx: u64) -> u64 {
    mix(&[seed, hash_str(prop), idx])
}

/// Greedy minimisation: accept a candidate only if it fails with the same class.
pub fn minimise<S: Scenario>(scn: &Arc<S>, mut case: S::Case, seed: u64, class: &str, budget: Duration) -> (S::Case, u64) {
    let start = Instant::now();
    let mut tries = 0u64;
    'outer: loop {
        if start.elapsed() > budget {
            break;
        }
        for cand in scn.shrink(&case) {
            if start.elapsed() > budget {
                break 'outer;
            }
            tries += 1;
            if let Ok(e) = exec_case(scn, &cand, seed, false) {
                if e.out.violation.as_ref().map(|v| v.class.as_str()) == Some(class) {
                    case = cand;
                    continue 'outer;
                }
            }
        }
        break;
    }
    (case, tries)
}

pub fn run_check<S: Scenario>(scn: S, opts: &Opts) -> i32 {
    let scn = Arc::new(scn);
    let prop = scn.id();
    let t0 = Instant::now();
    let known = load_known(&opts.verif_dir);
    let total = opts.runs_override.unwrap_or_else(|| scn.runs(opts.tier));
    println!("nsim: property={prop} tier={} VERIF_SEED={} runs={total} jobs={}", opts.tier.name(), opts.seed, opts.jobs);

    let next = Arc::new(AtomicU64::new(0));
    let stop = Arc::new(AtomicBool::new(false));
    let agg = Arc::new(Mutex::new(Agg {
        evaluations: 0,
        inner_evals: 0,
        nontrivial: 0,
        fingerprints: BTreeSet::new(),
        probes: BTreeMap::new(),
        faults: BTreeMap::new(),
        sim_ns: 0,
        samples: Vec::new(),
        observations: BTreeMap::new(),
        known_hits: BTreeMap::new(),
        digests: BTreeMap::new(),
        untracked: 0,
    }));
    // first unknown violation: (idx, case, violation, digest)
    let found: Arc<Mutex<Option<(u64, S::Case, Violation, u64)>>> = Arc::new(Mutex::new(None));
    let harness_err: Arc<Mutex<Option<String>>> = Arc::new(Mutex::new(None));

    let mut workers = Vec::new();
    for _ in 0..opts.jobs {
        let scn = scn.clone();
        let next = next.clone();
        let stop = stop.clone();
        let agg = agg.clone();
        let found = found.clone();
        let harness_err = harness_err.clone();
        let known = known.clone();
        let tier = opts.tier;
        let seed = opts.seed;
        let max_wall = opts.max_wall;
        workers.push(std::thread::spawn(move || loop {
            if stop.load(Ordering::Relaxed) || t0.elapsed() > max_wall {
                break;
            }
            let idx = next.fetch_add(1, Ordering::Relaxed);
            if idx >= total {
                break;
            }
            let cs = case_seed(seed, scn.id(), idx);
            let mut rng = Rng::new(cs);
            let case = scn.generate(&mut rng, tier, idx);
            match exec_case(&scn, &case, cs, false) {
                Err(e) => {
                    *harness_err.lock().unwrap() = Some(format!("run {idx}: {e}"));
                    stop.store(true, Ordering::Relaxed);
                    break;
                },
                Ok(ex) => {
                    if let Some(h) = &ex.out.harness_error {
                        *harness_err.lock().unwrap() =
                            Some(format!("run {idx}: {h}; case={}", serde_json::to_string(&case).unwrap_or_default()));
                        stop.store(true, Ordering::Relaxed);
                        break;
                    }
                    let mut a = agg.lock().unwrap();
                    a.evaluations += 1;
                    a.inner_evals += ex.out.inner_evals;
                    a.sim_ns += u128::from(ex.totals.sim_ns);
                    a.untracked += ex.totals.untracked_mutations;
                    if ex.out.nontrivial {
                        a.nontrivial += 1;
                        a.fingerprints.insert(ex.totals.fingerprint);
                    }
                    for (k, v) in &ex.totals.probes {
                        *a.probes.entry((*k).to_string()).or_insert(0) += v;
                    }
                    for (k, v) in &ex.totals.faults {
                        *a.faults.entry((*k).to_string()).or_insert(0) += v;
                    }
                    for o in &ex.out.observations {
                        *a.observations.entry(o.clone()).or_insert(0) += 1;
                    }
                    if a.samples.len() < 3 && ex.out.nontrivial {
                        a.samples.push(json!({
                            "index": idx,
                            "case": serde_json::to_value(&case).unwrap_or(Value::Null),
                            "outcome": ex.out.violation.as_ref().map(|v| v.class.clone()).unwrap_or_else(|| "held".into()),
                        }));
                    }
                    if idx % 97 == 0 || idx < 8 {
                        a.digests.insert(idx, (ex.totals.digest, ex.out.violation.as_ref().map(|v| v.class.clone())));
                    }
                    let reduced = ex.out.reduced.clone();
                    if let Some(v) = ex.out.violation {
                        if class_known(&known, scn.id(), &v.class).is_some() {
                            *a.known_hits.entry(v.class.clone()).or_insert(0) += 1;
                        } else {
                            drop(a);
                            let mut f = found.lock().unwrap();
                            // keep the lowest index so the verdict is stable across worker timing
                            if f.as_ref().map(|(i, ..)| idx < *i).unwrap_or(true) {
                                let case = reduced
                                    .and_then(|r| serde_json::from_value::<S::Case>(r).ok())
                                    .unwrap_or(case);
                                *f = Some((idx, case, v, ex.totals.digest));
                            }
                            stop.store(true, Ordering::Relaxed);
                        }
                    }
                },
            }
        }));
    }
    for w in workers {
        let _ = w.join();
    }

    if let Some(e) = harness_err.lock().unwrap().clone() {
        eprintln!("HARNESS-ERROR property={prop} {e}");
        return 2;
    }

    // determinism spot-check: re-run the recorded sample of indices, in reverse
    // order on this thread, and compare digests and verdict classes.
    let recorded: Vec<(u64, (u64, Option<String>))> = agg.lock().unwrap().digests.iter().map(|(k, v)| (*k, v.clone())).collect();
    let mut recheck = 0u64;
    let limit = if opts.tier == Tier::Quick { 24 } else { 200 };
    for (idx, (dig, cls)) in recorded.iter().rev().take(limit) {
        let cs = case_seed(opts.seed, prop, *idx);
        let mut rng = Rng::new(cs);
        let case = scn.generate(&mut rng, opts.tier, *idx);
        match exec_case(&scn, &case, cs, false) {
            Ok(ex) => {
                let c2 = ex.out.violation.as_ref().map(|v| v.class.clone());
                if ex.totals.digest != *dig || c2 != *cls {
                    eprintln!(
                        "HARNESS-ERROR property={prop} nondeterminism: run {idx} digest {dig:x} vs {:x}, verdict {cls:?} vs {c2:?}",
                        ex.totals.digest
                    );
                    return 2;
                }
                recheck += 1;
            },
            Err(e) => {
                eprintln!("HARNESS-ERROR property={prop} recheck run {idx}: {e}");
                return 2;
            },
        }
    }

    let mut exit = 0;
    let mut violations = 0;
    let mut replay_path = String::new();
    let found = found.lock().unwrap().take();
    if let Some((idx, case, v, _dig)) = found {
        violations = 1;
        let cs = case_seed(opts.seed, prop, idx);
        println!("nsim: violation in run {idx}: {} — {}", v.class, v.detail);
        // a scenario-provided reduced case must fail the same way, else fall back to regenerating
        let case = match exec_case(&scn, &case, cs, false) {
            Ok(ex) if ex.out.violation.as_ref().map(|x| x.class.as_str()) == Some(v.class.as_str()) => case,
            _ => {
                let mut rng = Rng::new(cs);
                scn.generate(&mut rng, opts.tier, idx)
            },
        };
        let (min_case, tries) = if opts.no_shrink {
            (case.clone(), 0)
        } else {
            minimise(&scn, case.clone(), cs, &v.class, Duration::from_secs(if opts.tier == Tier::Quick { 60 } else { 240 }))
        };
        // final execution of the minimised case, with the log kept
        let fin = exec_case(&scn, &min_case, cs, true);
        let (fv, fdig) = match fin {
            Ok(ex) => (ex.out.violation.unwrap_or(v.clone()), ex.totals.digest),
            Err(_) => (v.clone(), 0),
        };
        let _ = std::fs::create_dir_all(format!("{}/replays", opts.verif_dir));
        replay_path = format!("{}/replays/{}-{}-{}.json", opts.verif_dir, prop, opts.seed, idx);
        let rf = ReplayFile {
            property: prop.to_string(),
            seed: cs,
            case: serde_json::to_value(&min_case).unwrap(),
            violation: fv.clone(),
            digest: fdig,
            note: format!("found in run {idx} of VERIF_SEED={}, minimised with {tries} re-executions", opts.seed),
        };
        std::fs::write(&replay_path, serde_json::to_string_pretty(&rf).unwrap()).expect("write replay");
        // prove the replay reproduces in a fresh process
        let exe = std::env::current_exe().expect("current_exe");
        let st = std::process::Command::new(exe).args(["replay", &replay_path, "--quiet"]).status();
        match st {
            Ok(s) if s.code() == Some(1) => {
                println!("nsim: {}: {}", fv.class, fv.detail);
                println!("VIOLATION property={prop} replay={replay_path}");
                exit = 1;
            },
            other => {
                eprintln!("HARNESS-ERROR property={prop} replay file {replay_path} did not reproduce in a fresh process: {other:?}");
                return 2;
            },
        }
    }

    // evidence
    let a = agg.lock().unwrap();
    let wall = t0.elapsed().as_secs_f64();
    for (cls, n) in &a.known_hits {
        if let Some(k) = class_known(&known, prop, cls) {
            println!("KNOWN-FINDING: property={prop} {} [{}] (hit in {n} runs)", k.what, k.class);
        }
    }
    let mut missing = Vec::new();
    for p in scn.required_probes() {
        if a.probes.get(p).copied().unwrap_or(0) == 0 {
            missing.push(p);
        }
    }
    let ev = json!({
        "property_id": prop,
        "tier": opts.tier.name(),
        "seed": opts.seed,
        "level": scn.level(),
        "coverage": {
            "evaluations": a.evaluations,
            "distinct_nontrivial": a.fingerprints.len(),
            "nontrivial_runs": a.nontrivial,
            "rule": scn.rule(),
            "samples": a.samples,
            "exhaustive": false,
            "inner_enumerated_points": a.inner_evals,
            "runs_per_hour": if wall > 0.0 { (a.evaluations as f64 / wall * 3600.0) as u64 } else { 0 },
            "seeds": format!("case_seed = mix(VERIF_SEED={}, hash({prop}), i) for i in 0..{}", opts.seed, a.evaluations),
            "simulated_seconds_total": (a.sim_ns / 1_000_000) as f64 / 1000.0,
            "faults_fired": a.faults,
            "probes": a.probes,
            "required_probes_missing": missing,
            "observations": a.observations,
            "components": scn.components(),
            "determinism_rechecked_runs": recheck,
            "known_findings_hit": a.known_hits,
            "untracked_mutations": a.untracked,
        },
        "assumptions": scn.assumptions(),
        "wall_s": wall,
        "violations": violations,
    });
    let _ = std::fs::create_dir_all(format!("{}/evidence", opts.verif_dir));
    let evp = format!("{}/evidence/{}.json", opts.verif_dir, prop);
    std::fs::write(&evp, serde_json::to_string_pretty(&ev).unwrap()).expect("write evidence");
    println!(
        "nsim: property={prop} runs={} nontrivial={} distinct={} inner={} wall={:.1}s sim={:.0}s recheck={} -> {}",
        a.evaluations,
        a.nontrivial,
        a.fingerprints.len(),
        a.inner_evals,
        wall,
        (a.sim_ns / 1_000_000_000) as f64,
        recheck,
        if exit == 0 { "held" } else { "VIOLATED" }
    );
    if exit == 0 && !missing.is_empty() {
        eprintln!("HARNESS-ERROR property={prop} required probes never hit: {missing:?} (a pass would be vacuous)");
        return 2;
    }
    if !replay_path.is_empty() && exit == 0 {
        exit = 1;
    }
    exit
}

/// Determinism dump: execute cases 0..n and print one line per case
/// ("index digest fingerprint verdict-class"), in index order. Two dumps taken
/// in different processes / with different worker counts must be identical.
pub fn digests<S: Scenario>(scn: S, opts: &Opts) -> i32 {
    let scn = Arc::new(scn);
    let total = opts.runs_override.unwrap_or(1000);
    let next = Arc::new(AtomicU64::new(0));
    let out: Arc<Mutex<BTreeMap<u64, String>>> = Arc::new(Mutex::new(BTreeMap::new()));
    let mut workers = Vec::new();
    for _ in 0..opts.jobs {
        let scn = scn.clone();
        let next = next.clone();
        let out = out.clone();
        let (tier, seed) = (opts.tier, opts.seed);
        workers.push(std::thread::spawn(move || loop {
            let idx = next.fetch_add(1, Ordering::Relaxed);
            if idx >= total {
                break;
            }
            let cs = case_seed(seed, scn.id(), idx);
            let mut rng = Rng::new(cs);
            let case = scn.generate(&mut rng, tier, idx);
            let line = match exec_case(&scn, &case, cs, false) {
                Ok(ex) => format!(
                    "{idx} {:016x} {:016x} {}",
                    ex.totals.digest,
                    ex.totals.fingerprint,
                    ex.out.violation.map(|v| v.class).or(ex.out.harness_error.map(|h| format!("HARNESS:{h}"))).unwrap_or_else(|| "held".into())
                ),
                Err(e) => format!("{idx} ERROR {e}"),
            };
            out.lock().unwrap().insert(idx, line);
        }));
    }
    for w in workers {
        let _ = w.join();
    }
    for l in out.lock().unwrap().values() {
        println!("{l}");
    }
    0
}

pub fn replay<S: Scenario>(scn: S, path: &str, quiet: bool) -> i32 {
    let scn = Arc::new(scn);
    let s = match std::fs::read_to_string(path) {
        Ok(s) => s,
        Err(e) => {
            eprintln!("HARNESS-ERROR cannot read {path}: {e}");
            return 2;
        },
    };
    let rf: ReplayFile = match serde_json::from_str(&s) {
        Ok(r) => r,
        Err(e) => {
            eprintln!("HARNESS-ERROR cannot parse {path}: {e}");
            return 2;
        },
    };
    let case: S::Case = match serde_json::from_value(rf.case.clone()) {
        Ok(c) => c,
        Err(e) => {
            eprintln!("HARNESS-ERROR replay case does not fit scenario {}: {e}", scn.id());
            return 2;
        },
    };
    match exec_case(&scn, &case, rf.seed, true) {
        Err(e) => {
            eprintln!("HARNESS-ERROR {e}");
            2
        },
        Ok(ex) => {
            if !quiet {
                for l in &ex.totals.log {
                    println!("{l}");
                }
            }
            if let Some(h) = ex.out.harness_error {
                eprintln!("HARNESS-ERROR {h}");
                return 2;
            }
            match ex.out.violation {
                Some(v) if v.class == rf.violation.class => {
                    if !quiet {
                        println!("reproduced: {} — {}", v.class, v.detail);
                        if ex.totals.digest != rf.digest {
                            println!("note: event-log digest differs from the recorded one ({:x} vs {:x})", ex.totals.digest, rf.digest);
                        }
                        println!("VIOLATION property={} replay={path}", rf.property);
                    }
                    if ex.totals.digest != rf.digest {
                        return 4;
                    }
                    1
                },
                Some(v) => {
                    println!("different violation on replay: {} — {}", v.class, v.detail);
                    3
                },
                None => {
                    println!("replay did not reproduce the violation");
                    3
                },
            }
        },
    }
}
