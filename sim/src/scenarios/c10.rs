//! C10 — Raft node restart never forgets a vote, a term or an acknowledged entry.
//!
//! One real WAL-backed `RaftNode` ("n0"); the kernel plays the other two
//! voters with scripted messages, which reaches deep WAL states (elections,
//! votes, appends, conflict truncations, leadership and proposals) in a few
//! steps. Every mutating syscall boundary and sampled byte offsets of every
//! WAL write are taken as crash points (Enumerate), or 1-3 seeded crashes are
//! chained (Chain). After each crash the node is rebuilt with the real
//! `RaftNode::with_wal` and judged against what it had promised.

use crate::ctx::{DiskFault, RunCtx, SysEvent};
use crate::driver::{drop_chunks, RunOut, Scenario, Tier, Violation};
use crate::raftsim::{image, mk_block, msg_brief, role_str, Cluster, Ent, Image};
use crate::rng::Rng;
use serde::{Deserialize, Serialize};
use serde_json::{json, Value};
use std::collections::BTreeMap;
use std::sync::Arc;
use tensor_chain::network::{AppendEntries, AppendEntriesResponse, LogEntry, Message, RequestVote, RequestVoteResponse};
use tensor_chain::raft::{RaftConfig, RaftState};
use tensor_store::SparseVector;

#[derive(Serialize, Deserialize, Clone, Debug, PartialEq)]
pub enum Step {
    /// RequestVote from scripted peer `from` (1|2); term relative to the node's
    /// current term; log: 0 stale, 1 equal, 2 better
    ReqVote { from: u8, dterm: i8, log: u8 },
    /// AppendEntries from scripted leader: prev = last_index - back (back=3: beyond the end);
    /// n new entries in the leader's term (conflict truncation when back>0)
    /// `old`: the new entries carry the term (leader term - old), floored at the term of
    /// the entry they follow — a leader replicating entries of earlier terms
    Append {
        from: u8,
        dterm: i8,
        back: u8,
        n: u8,
        commit_back: u8,
        bad_prev: bool,
        #[serde(default)]
        old: u8,
        /// size class of the first new entry's payload: 0 none; k>0: a `Put`
        /// of k * 300 KiB incompressible bytes (k >= 4: the WAL record exceeds 1 MiB)
        #[serde(default)]
        big: u8,
    },
    /// log compaction on the node: finalize to (commit index - back), take a
    /// snapshot through the public create_snapshot, truncate_log. The entries
    /// dropped from memory stay promised: a restart must still come back with them.
    Compact { back: u8 },
    /// `n` election timeouts in a row (a node that cannot reach a quorum for a
    /// long time): a long log of superseded term/vote records
    Churn { n: u16 },
    /// clean stop and restart from the log between two steps
    Restart,
    /// `n` AppendEntries in a row, each carrying one entry of about 1.2 MiB (a
    /// log of tens of MiB)
    Bulk { from: u8, n: u8 },
    Election,
    VoteResp { from: u8, granted: bool, dterm: i8 },
    AppendResp { from: u8, ok: bool, back: u8, dterm: i8 },
    Propose { payload: u32 },
    /// the other kind of entry a leader accepts: a codebook replacement
    /// (`propose_codebook_replace`)
    ProposeCodebook { version: u16 },
    Tick,
    /// the node receives and installs a snapshot of `n` entries (built by a real donor
    /// node through the public create_snapshot) whose last term is current+dterm
    InstallSnapshot { n: u8, dterm: i8 },
    Advance { ms: u32 },
    /// injected disk error on the nth mutating syscall from now: 0 EIO, 1 ENOSPC, 2 EINTR, 3 short write
    Fault { nth: u8, kind: u8 },
    DiskFull { on: bool },
}

#[derive(Serialize, Deserialize, Clone, Debug, PartialEq)]
pub struct CrashSpec {
    pub nth: u64,
    pub bytes: Option<usize>,
    pub cut: u64,
}

#[derive(Serialize, Deserialize, Clone, Debug, PartialEq)]
pub enum Mode {
    Enumerate,
    Chain(Vec<CrashSpec>),
}

#[derive(Serialize, Deserialize, Clone, Debug)]
pub struct Case {
    pub pre_vote: bool,
    pub fast_path: bool,
    pub geo: bool,
    pub steps: Vec<Step>,
    pub mode: Mode,
    /// RaftConfig::snapshot_trailing_logs + 1 (0: the default of 100, as in
    /// replay files written before compaction was driven)
    #[serde(default)]
    pub trailing: u8,
}

pub struct C10;
const NODE: &str = "n0";

fn raft_cfg(case: &Case) -> RaftConfig {
    let mut c = RaftConfig::default();
    c.enable_pre_vote = case.pre_vote;
    c.enable_fast_path = case.fast_path;
    c.enable_geometric_tiebreak = case.geo;
    c.auto_heartbeat = false;
    if case.trailing > 0 {
        c.snapshot_trailing_logs = usize::from(case.trailing) - 1;
    }
    c
}

/// `k * 300 KiB` of bytes no encoder packs (bitcode collapses runs).
fn big_payload(k: u8, salt: u64) -> Vec<u8> {
    let mut x = salt.wrapping_mul(0x9E37_79B9_7F4A_7C15) | 1;
    let n = usize::from(k) * 300 * 1024;
    let mut v = Vec::with_capacity(n + 8);
    while v.len() < n {
        x ^= x << 13;
        x ^= x >> 7;
        x ^= x << 17;
        v.extend_from_slice(&x.to_le_bytes());
    }
    v
}

struct Trial<'a> {
    ctx: &'a Arc<RunCtx>,
    case: &'a Case,
    cl: Cluster,
    /// the entries acknowledged to a leader (success response released) or accepted
    /// as leader (propose returned Ok), as they were when acknowledged; entries the
    /// node later dropped in memory through a conflict truncation are no longer
    /// required (a new leader may legitimately overwrite uncommitted entries)
    acked: Vec<Ent>,
    /// votes promised in released messages: term -> candidate
    votes: BTreeMap<u64, String>,
    /// highest term put into any released message
    max_term_sent: u64,
    payload_seq: u64,
    tag: u64,
    disk_faults_at_start: u64,
    hard_faults_at_start: u64,
    /// the scripted peers respect election safety and leader append-only: one leader
    /// per term, one entry per (term, index) — otherwise the scripted histories would
    /// lie outside what any Raft cluster can produce
    term_leader: BTreeMap<u64, String>,
    script_entries: BTreeMap<(u64, u64), u64>,
    /// entries compacted out of the node's memory (index 1..): the image the
    /// oracle works with is always the full log from index 1
    dropped: Vec<Ent>,
}

fn lcp(a: &[Ent], b: &[Ent]) -> usize {
    a.iter().zip(b.iter()).take_while(|(x, y)| x == y).count()
}

impl<'a> Trial<'a> {
    fn new(ctx: &'a Arc<RunCtx>, case: &'a Case, tag: u64) -> Result<Self, Violation> {
        // each trial gets its own node directory name so files never mix
        let (cl, r) = Cluster::new_partial(ctx, 3, raft_cfg(case), true, &[]);
        let _ = r;
        let mut t = Trial { ctx, case, cl, acked: Vec::new(), votes: BTreeMap::new(), max_term_sent: 0, payload_seq: tag * 1000, tag, disk_faults_at_start: 0, hard_faults_at_start: 0, term_leader: BTreeMap::new(), script_entries: BTreeMap::new(), dropped: Vec::new() };
        t.disk_faults_at_start = ctx.lock().faults.iter().filter(|(k, _)| k.starts_with("disk_")).map(|(_, v)| *v).sum();
        t.hard_faults_at_start = Self::hard_faults(ctx);
        // fresh WAL file per trial, nothing armed from a previous trial
        ctx.disarm_crash();
        ctx.clear_faults();
        ctx.set_disk_full(NODE, false);
        let _ = ctx.crash_image(NODE, false, |_, _, hi| hi);
        let p = t.cl.wal_path(0);
        let _ = std::fs::remove_file(&p);
        for i in 1..=4 {
            let _ = std::fs::remove_file(format!("{p}.{i}"));
        }
        ctx.forget_prefix(&p);
        t.start("initial start")?;
        Ok(t)
    }

    fn start(&mut self, what: &str) -> Result<(), Violation> {
        // recovery rebuilds the whole log from the WAL: nothing is compacted
        self.dropped.clear();
        self.cl.start(0).map_err(|e| Violation {
            class: "restart-failed".into(),
            detail: format!("{what}: RaftNode::with_wal failed on a log the node wrote itself: {e}"),
        })
    }

    /// The term a scripted leader may use: the wanted one, moved up past terms that
    /// already have a different leader.
    fn leader_term(&mut self, wanted: u64, leader: &str) -> u64 {
        let mut t = wanted;
        while self.term_leader.get(&t).is_some_and(|l| l != leader) {
            t += 1;
        }
        self.term_leader.insert(t, leader.to_string());
        t
    }

    fn script_payload(&mut self, term: u64, index: u64) -> u64 {
        if let Some(p) = self.script_entries.get(&(term, index)) {
            return *p;
        }
        self.payload_seq += 1;
        self.script_entries.insert((term, index), self.payload_seq);
        self.payload_seq
    }

    /// Injected I/O *errors* (EIO, ENOSPC, full disk) are outside C10's quantifier, which
    /// speaks of crashes at any byte of a log write. Once one has fired in a trial, what
    /// the oracle finds afterwards is reported as an observation, never as a verdict.
    /// (Short writes and EINTR are legal behaviour of write(2) and stay in the verdict.)
    fn hard_faults(ctx: &RunCtx) -> u64 {
        let g = ctx.lock();
        ["disk_eio", "disk_enospc", "disk_full_statvfs"].iter().map(|k| g.faults.get(k).copied().unwrap_or(0)).sum()
    }

    pub fn hard_fault_fired(&self) -> bool {
        Self::hard_faults(self.ctx) > self.hard_faults_at_start
    }

    fn node_image(&self) -> Image {
        let mut img = image(self.cl.nodes[0].as_ref().unwrap());
        // after a compaction the in-memory array starts at a later index: put
        // the entries dropped from memory (and only those) in front again
        let first = img.log.first().map_or(1, |e| e.index);
        if first > 1 && self.dropped.len() as u64 >= first - 1 {
            let mut full = self.dropped[..(first - 1) as usize].to_vec();
            full.append(&mut img.log);
            img.log = full;
        }
        img
    }

    /// Record the promises contained in the messages the node released in this step.
    fn release_outputs(&mut self) -> Result<(), Violation> {
        let img = self.node_image();
        let keep = lcp(&self.acked, &img.log);
        self.acked.truncate(keep);
        for m in self.cl.drain_inflight() {
            if m.from != NODE {
                continue;
            }
            self.ctx.event(&format!("  out -> {}: {}", m.to, msg_brief(&m.msg)));
            match &m.msg {
                Message::RequestVote(rv) => {
                    self.max_term_sent = self.max_term_sent.max(rv.term);
                    self.promise_vote(rv.term, NODE)?;
                },
                Message::RequestVoteResponse(r) => {
                    self.max_term_sent = self.max_term_sent.max(r.term);
                    if r.vote_granted {
                        self.promise_vote(r.term, &m.to)?;
                    }
                },
                Message::AppendEntriesResponse(r) => {
                    self.max_term_sent = self.max_term_sent.max(r.term);
                    if r.success {
                        // bounded by what it held
                        let m = (r.match_index as usize).min(img.log.len());
                        if m > self.acked.len() {
                            self.acked = img.log[..m].to_vec();
                        }
                    }
                },
                Message::AppendEntries(a) => {
                    self.max_term_sent = self.max_term_sent.max(a.term);
                },
                Message::PreVote(_) | Message::PreVoteResponse(_) => {},
                _ => {},
            }
        }
        Ok(())
    }

    /// "a node never grants two different candidates its vote in one term"
    fn promise_vote(&mut self, term: u64, cand: &str) -> Result<(), Violation> {
        if let Some(prev) = self.votes.get(&term) {
            if prev != cand {
                return Err(Violation {
                    class: "two-votes-in-one-term".into(),
                    detail: format!("node voted for {prev} and later for {cand} in term {term}"),
                });
            }
        }
        self.votes.insert(term, cand.to_string());
        Ok(())
    }

    fn exec(&mut self, step: &Step) -> Result<(), Violation> {
        let node = self.cl.nodes[0].as_ref().unwrap().clone();
        let img = self.node_image();
        let t = img.term;
        let l = img.log.len() as u64;
        let lt = img.log.last().map(|e| e.term).unwrap_or(0);
        let rel = |d: i8| -> u64 { (t as i64 + i64::from(d)).max(1) as u64 };
        self.ctx.set_node(Some(NODE));
        match step {
            Step::ReqVote { from, dterm, log } => {
                let term = rel(*dterm);
                let (li, lterm) = match log % 3 {
                    0 => (0, 0),
                    1 => (l, lt),
                    _ => (l + 1, lt.max(term)),
                };
                let cand = format!("n{}", 1 + from % 2);
                let msg = Message::RequestVote(RequestVote {
                    term,
                    candidate_id: cand.clone(),
                    last_log_index: li,
                    last_log_term: lterm,
                    state_embedding: SparseVector::new(0),
                });
                self.ctx.event(&format!("in <- {cand}: {}", msg_brief(&msg)));
                if let Some(r) = node.handle_message(&cand, &msg) {
                    self.cl.push(NODE, &cand, r);
                }
            },
            Step::Append { from, dterm, back, n, commit_back, bad_prev, old, big } => {
                let leader = format!("n{}", 1 + from % 2);
                let term = self.leader_term(rel(*dterm), &leader);
                let prev = if *back >= 3 { l + 1 } else { l.saturating_sub(u64::from(*back)) };
                let mut prev_term = if prev == 0 {
                    0
                } else {
                    img.log.get(prev as usize - 1).map(|e| e.term).unwrap_or(term)
                };
                if *bad_prev && prev > 0 {
                    prev_term += 1;
                }
                let mut entries = Vec::new();
                let floor = if prev == 0 { 1 } else { img.log.get(prev as usize - 1).map(|e| e.term).unwrap_or(1) };
                let eterm = term.saturating_sub(u64::from(*old)).max(floor).max(1).min(term);
                if eterm < term {
                    self.ctx.probe("append_of_older_term_entries");
                }
                for j in 0..u64::from(*n % 4) {
                    let pl = self.script_payload(eterm, prev + 1 + j);
                    let mut blk = mk_block(pl, &leader, self.case.fast_path);
                    if j == 0 && *big > 0 {
                        blk.transactions.push(tensor_chain::Transaction::Put { key: format!("big{pl}"), data: big_payload(*big, pl) });
                        self.ctx.probe("large_entry_appended");
                        if *big >= 4 {
                            self.ctx.probe("entry_record_over_1mib");
                        }
                    }
                    entries.push(LogEntry::new(eterm, prev + 1 + j, blk));
                }
                let commit = (prev + entries.len() as u64).saturating_sub(u64::from(*commit_back));
                let emb = entries.last().map(|e| e.block.header.delta_embedding.clone());
                let msg = Message::AppendEntries(AppendEntries {
                    term,
                    leader_id: leader.clone(),
                    prev_log_index: prev,
                    prev_log_term: prev_term,
                    entries,
                    leader_commit: commit,
                    block_embedding: emb,
                });
                self.ctx.event(&format!("in <- {leader}: {}", msg_brief(&msg)));
                if let Some(r) = node.handle_message(&leader, &msg) {
                    self.cl.push(NODE, &leader, r);
                }
            },
            Step::Compact { back } => {
                let h = node.commit_index().saturating_sub(u64::from(*back));
                let before = img.log.clone();
                let r = node.finalize_to(h).and_then(|()| node.create_snapshot()).and_then(|(meta, _)| node.truncate_log(&meta).map(|()| meta.last_included_index));
                let first = image(&node).log.first().map_or(1, |e| e.index);
                self.ctx.event(&format!("compact to {h} -> {:?}, in-memory log now starts at index {first}", r.as_ref().map_err(|e| e.to_string())));
                if first > 1 {
                    self.dropped = before[..((first - 1) as usize).min(before.len())].to_vec();
                    self.ctx.probe("log_compacted_in_memory");
                }
            },
            Step::Restart => {},
            Step::Bulk { from, n } => {
                let leader = format!("n{}", 1 + from % 2);
                let term = self.leader_term(t.max(lt).max(1), &leader);
                let mut prev = l;
                let mut prev_term = lt;
                self.ctx.event(&format!("in <- {leader}: {n} AppendEntries of one ~1.2 MiB entry each, term {term}, from index {}", l + 1));
                for _ in 0..*n {
                    let idx = prev + 1;
                    let pl = self.script_payload(term, idx);
                    let mut blk = mk_block(pl, &leader, self.case.fast_path);
                    blk.transactions.push(tensor_chain::Transaction::Put { key: format!("big{pl}"), data: big_payload(4, pl) });
                    let msg = Message::AppendEntries(AppendEntries {
                        term,
                        leader_id: leader.clone(),
                        prev_log_index: prev,
                        prev_log_term: prev_term,
                        entries: vec![LogEntry::new(term, idx, blk)],
                        leader_commit: prev,
                        block_embedding: None,
                    });
                    match node.handle_message(&leader, &msg) {
                        Some(r) => {
                            let ok = matches!(&r, Message::AppendEntriesResponse(a) if a.success);
                            self.cl.push(NODE, &leader, r);
                            if !ok {
                                break;
                            }
                        },
                        None => break,
                    }
                    if self.ctx.is_dead(NODE) {
                        break;
                    }
                    prev = idx;
                    prev_term = term;
                }
                if *n >= 56 {
                    self.ctx.probe("log_of_more_than_64_mib");
                }
            },
            Step::Churn { n } => {
                self.ctx.event(&format!("{n} election timeouts in a row"));
                for _ in 0..*n {
                    let _ = crate::net::now_or_never(node.start_election_async());
                    if self.ctx.is_dead(NODE) {
                        break;
                    }
                }
                if *n >= 1000 {
                    self.ctx.probe("log_of_more_than_1000_records");
                }
            },
            Step::Election => {
                self.ctx.event("election timeout");
                let _ = crate::net::now_or_never(node.start_election_async());
            },
            Step::VoteResp { from, granted, dterm } => {
                let voter = format!("n{}", 1 + from % 2);
                let msg = Message::RequestVoteResponse(RequestVoteResponse { term: rel(*dterm), vote_granted: *granted, voter_id: voter.clone() });
                self.ctx.event(&format!("in <- {voter}: {}", msg_brief(&msg)));
                let _ = node.handle_message(&voter, &msg);
            },
            Step::AppendResp { from, ok, back, dterm } => {
                let f = format!("n{}", 1 + from % 2);
                let msg = Message::AppendEntriesResponse(AppendEntriesResponse {
                    term: rel(*dterm),
                    success: *ok,
                    follower_id: f.clone(),
                    match_index: l.saturating_sub(u64::from(*back)),
                    used_fast_path: false,
                });
                self.ctx.event(&format!("in <- {f}: {}", msg_brief(&msg)));
                let _ = node.handle_message(&f, &msg);
            },
            Step::Propose { payload } => {
                self.payload_seq += 1;
                let r = node.propose(mk_block(u64::from(*payload) * 100_000 + self.payload_seq, NODE, self.case.fast_path));
                self.ctx.event(&format!("propose -> {:?}", r.as_ref().map_err(|e| e.to_string())));
                if let Ok(idx) = r {
                    if !self.ctx.is_dead(NODE) {
                        let now = self.node_image();
                        let keep = lcp(&self.acked, &now.log);
                        self.acked.truncate(keep);
                        let m = (idx as usize).min(now.log.len());
                        if m > self.acked.len() {
                            self.acked = now.log[..m].to_vec();
                        }
                        self.ctx.probe("proposed_as_leader");
                    }
                }
            },
            Step::ProposeCodebook { version } => {
                let snap = tensor_chain::codebook::GlobalCodebookSnapshot::new(4, Vec::new(), u64::from(*version));
                let r = node.propose_codebook_replace(snap);
                self.ctx.event(&format!("propose_codebook_replace -> {:?}", r.as_ref().map_err(|e| e.to_string())));
                if let Ok(idx) = r {
                    if !self.ctx.is_dead(NODE) {
                        // "every log entry it had ... accepted as leader"
                        let now = self.node_image();
                        let keep = lcp(&self.acked, &now.log);
                        self.acked.truncate(keep);
                        let m = (idx as usize).min(now.log.len());
                        if m > self.acked.len() {
                            self.acked = now.log[..m].to_vec();
                        }
                        self.ctx.probe("codebook_entry_accepted_as_leader");
                    }
                }
            },
            Step::Tick => {
                let _ = crate::net::now_or_never(node.tick_async());
            },
            Step::InstallSnapshot { n, dterm } => {
                let term = self.leader_term(rel(*dterm).max(lt), "n2");
                let cnt = 1 + u64::from(*n % 5);
                // donor: a real node that holds `cnt` committed, finalized entries
                let all: Vec<String> = vec!["n0".into(), "n1".into(), "n2".into()];
                let tr = crate::net::SimTransport::new("n1", &all, &crate::net::new_net());
                let donor = tensor_chain::raft::RaftNode::new("n1".into(), vec!["n0".into(), "n2".into()], tr, raft_cfg(self.case));
                // a snapshot is a prefix of the committed log: where the node itself holds
                // committed entries the snapshot carries the same ones (state machine safety
                // of the scripted cluster); beyond that, entries of the sender's term
                let committed = node.commit_index().min(l);
                let mut entries = Vec::new();
                for j in 0..cnt {
                    let idx = 1 + j;
                    if idx <= committed {
                        let e = &img.log[idx as usize - 1];
                        entries.push(LogEntry::new(e.term, idx, mk_block(e.payload, &e.proposer, self.case.fast_path)));
                    } else {
                        let pl = self.script_payload(term, idx);
                        entries.push(LogEntry::new(term, idx, mk_block(pl, "n2", false)));
                    }
                }
                let ae = Message::AppendEntries(AppendEntries {
                    term,
                    leader_id: "n2".into(),
                    prev_log_index: 0,
                    prev_log_term: 0,
                    entries,
                    leader_commit: cnt,
                    block_embedding: None,
                });
                let _ = donor.handle_message(&"n2".to_string(), &ae);
                if donor.finalize_to(cnt).is_ok() {
                    if let Ok((meta, data)) = donor.create_snapshot() {
                        let r = node.install_snapshot(meta, &data);
                        self.ctx.event(&format!("install snapshot of {cnt} entries, last term {term} -> {:?}", r.as_ref().map_err(|e| e.to_string())));
                        if r.is_ok() && !self.ctx.is_dead(NODE) {
                            self.ctx.probe("snapshot_installed");
                        }
                    }
                }
            },
            Step::Advance { ms } => {
                self.ctx.set_node(None);
                self.ctx.advance_ms(u64::from(*ms));
            },
            Step::Fault { nth, kind } => {
                let f = match kind % 4 {
                    0 => DiskFault::Eio,
                    1 => DiskFault::Enospc,
                    2 => DiskFault::Eintr,
                    _ => DiskFault::Short(3),
                };
                self.ctx.arm_fault(NODE, u64::from(*nth), f);
            },
            Step::DiskFull { on } => {
                self.ctx.set_disk_full(NODE, *on);
            },
        }
        self.ctx.set_node(None);
        Ok(())
    }

    /// Judge the recovered node against the promises. `a` = image at the end of
    /// the last completed step, `b` = in-memory image after the torn step (the
    /// code ran on with dead descriptors; none of its outputs were released).
    fn judge_restart(&mut self, a: &Image, b: &Image, torn: bool, what: &str) -> Result<(), Violation> {
        let r = self.node_image();
        self.ctx.event(&format!(
            "restart {what}: recovered term={} vote={:?} log={} | before: term={} vote={:?} log={}",
            r.term,
            r.vote,
            r.log.len(),
            a.term,
            a.vote,
            a.log.len()
        ));
        // "comes back with a term at least as high as any term it had acted on"
        if r.term < a.term || r.term < self.max_term_sent {
            return Err(Violation {
                class: "term-went-back".into(),
                detail: format!("{what}: recovered term {} < term {} it had acted on (max term sent {})", r.term, a.term, self.max_term_sent),
            });
        }
        // "with the same vote it had cast in that term"
        if let Some(c) = self.votes.get(&r.term) {
            if r.vote.as_deref() != Some(c.as_str()) {
                return Err(Violation {
                    class: "vote-forgotten".into(),
                    detail: format!("{what}: node had told {c} it voted for it in term {}, recovered vote is {:?}", r.term, r.vote),
                });
            }
        }
        if r.term == a.term && a.vote.is_some() && !torn && r.vote != a.vote {
            return Err(Violation {
                class: "vote-forgotten".into(),
                detail: format!("{what}: vote in term {} was {:?}, recovered {:?}", a.term, a.vote, r.vote),
            });
        }
        // "and with every log entry it had acknowledged to a leader or accepted as leader"
        let cp = lcp(&a.log, &b.log);
        let bound = if torn { cp } else { a.log.len() };
        let req = lcp(&self.acked, &a.log).min(bound);
        if r.log.len() < req || r.log[..req] != self.acked[..req] {
            let k = lcp(&r.log, &self.acked);
            return Err(Violation {
                class: "acknowledged-entry-lost".into(),
                detail: format!(
                    "{what}: node had acknowledged/accepted {} entries ({} still required), recovered log has {} entries and first differs from the acknowledged ones at index {}: acknowledged {:?}, recovered {:?}",
                    self.acked.len(),
                    req,
                    r.log.len(),
                    k + 1,
                    self.acked.get(k),
                    r.log.get(k)
                ),
            });
        }
        // no entry out of nowhere: every recovered entry was in memory at that index.
        // Relaxation, only when an injected disk error fired in this incarnation: an
        // append whose write reached the file but whose call reported an error (EIO on
        // the fsync, say) was rolled back in memory and refused to the caller; Raft
        // allows such an entry to survive, and the statement does not forbid it.
        let disk_faults: u64 = self.ctx.lock().faults.iter().filter(|(k, _)| k.starts_with("disk_")).map(|(_, v)| *v).sum();
        let faulted = disk_faults > self.disk_faults_at_start;
        self.disk_faults_at_start = disk_faults;
        for (k, e) in r.log.iter().enumerate() {
            if faulted && k >= req {
                break;
            }
            let ok = a.log.get(k) == Some(e) || (torn && b.log.get(k) == Some(e));
            if !ok {
                return Err(Violation {
                    class: "recovered-entry-never-held".into(),
                    detail: format!("{what}: recovered log holds {:?} at index {} which the node never held there", e, k + 1),
                });
            }
        }
        // the promises continue from the recovered state
        let keep = lcp(&self.acked, &r.log);
        self.acked.truncate(keep);
        Ok(())
    }

    /// Behavioural form of the vote clause: after the restart a different
    /// candidate asking in a term in which the node already promised its vote
    /// must be refused.
    fn probe_double_vote(&mut self) -> Result<(), Violation> {
        let img = self.node_image();
        let Some(promised) = self.votes.get(&img.term).cloned() else {
            return Ok(());
        };
        let other = if promised == "n1" { "n2" } else { "n1" };
        let node = self.cl.nodes[0].as_ref().unwrap().clone();
        let l = img.log.len() as u64;
        let msg = Message::RequestVote(RequestVote {
            term: img.term,
            candidate_id: other.to_string(),
            last_log_index: l + 5,
            last_log_term: img.term + 5,
            state_embedding: SparseVector::new(0),
        });
        self.ctx.probe("vote_requested_from_restarted_voter_same_term");
        self.ctx.set_node(Some(NODE));
        let r = node.handle_message(&other.to_string(), &msg);
        self.ctx.set_node(None);
        if let Some(Message::RequestVoteResponse(resp)) = r {
            if resp.vote_granted {
                return Err(Violation {
                    class: "two-votes-in-one-term".into(),
                    detail: format!("after restart the node granted {other} its vote in term {} although it had promised it to {promised}", img.term),
                });
            }
        }
        Ok(())
    }

    fn cut_choice(cut: u64, lo: u64, hi: u64) -> u64 {
        match cut {
            0 => hi,
            1 => lo,
            n => lo + (n.wrapping_mul(0x9E37_79B9_7F4A_7C15) >> 33) % (hi - lo + 1),
        }
    }

    fn run(&mut self, crashes: &[CrashSpec], record: bool) -> (Result<(), Violation>, Vec<(usize, SysEvent)>) {
        let ctx = self.ctx;
        let mut syslog = Vec::new();
        let mut crash_iter = crashes.iter();
        let mut next_crash = crash_iter.next();
        if let Some(c) = next_crash {
            ctx.arm_crash(NODE, c.nth, c.bytes);
        }
        if record {
            ctx.start_sys_recording();
        }
        let steps = self.case.steps.clone();
        let mut i = 0;
        let mut crashes_done = 0;
        let mut a = self.node_image();
        while i <= steps.len() {
            if !ctx.is_dead(NODE) && i < steps.len() && steps[i] != Step::Restart {
                ctx.event(&format!("step {i}: {:?}", steps[i]));
                if let Err(v) = self.exec(&steps[i]) {
                    return (Err(v), syslog);
                }
                if record {
                    for e in ctx.take_sys_log() {
                        syslog.push((i, e));
                    }
                }
                if !ctx.is_dead(NODE) {
                    if let Err(v) = self.release_outputs() {
                        return (Err(v), syslog);
                    }
                    a = self.node_image();
                    let n = self.cl.nodes[0].as_ref().unwrap();
                    ctx.fp(&format!("{}{}", role_str(n.state()), a.log.len().min(6)));
                    if n.state() == RaftState::Leader {
                        ctx.probe("became_leader");
                        self.term_leader.insert(a.term, NODE.to_string());
                    }
                    i += 1;
                    continue;
                }
            }
            let crashed = ctx.is_dead(NODE);
            let b = self.node_image();
            let _ = self.cl.drain_inflight(); // outputs of the torn step are never sent
            if crashed {
                ctx.fault_fired("crash");
                if let Some(ev) = ctx.crash_fired() {
                    ctx.fp(&format!("crash:{}", ev.kind));
                    if ev.kind == "write" {
                        ctx.probe("crash_inside_wal_write");
                        if b.term != a.term || b.vote != a.vote {
                            ctx.probe("crash_inside_term_and_vote_record");
                        }
                        if b.log != a.log {
                            ctx.probe("crash_inside_log_entry_record");
                            if lcp(&a.log, &b.log) < a.log.len() {
                                ctx.probe("crash_during_conflict_truncation");
                            }
                        }
                    }
                }
            }
            self.cl.nodes[0] = None; // drop the node (closes the WAL)
            let cut = next_crash.map(|c| c.cut).unwrap_or(0);
            let cuts = ctx.crash_image(NODE, true, |_p, lo, hi| Self::cut_choice(cut, lo, hi));
            if cuts.iter().any(|(_, o, n)| n < o) {
                ctx.fault_fired("power_loss_cut");
            }
            ctx.clear_faults();
            ctx.set_disk_full(NODE, false);
            next_crash = crash_iter.next();
            if let Some(c) = next_crash {
                ctx.arm_crash(NODE, c.nth, c.bytes);
            }
            let mid_program = !crashed && i < steps.len();
            let what = if crashed {
                format!("after crash #{crashes_done} inside step {i}")
            } else if mid_program {
                ctx.probe("clean_restart_between_steps");
                format!("after clean stop before step {i}")
            } else {
                "after clean stop".to_string()
            };
            if let Err(v) = self.start(&what) {
                return (Err(v), syslog);
            }
            if let Err(v) = self.judge_restart(&a, &b, crashed, &what) {
                return (Err(v), syslog);
            }
            if !a.log.is_empty() {
                ctx.probe("restart_with_nonempty_log");
            }
            if let Err(v) = self.probe_double_vote() {
                return (Err(v), syslog);
            }
            let _ = self.cl.drain_inflight();
            a = self.node_image();
            if mid_program {
                i += 1;
                continue;
            }
            if !crashed {
                break;
            }
            crashes_done += 1;
            if crashes_done >= 2 {
                ctx.probe("second_restart");
            }
            ctx.probe("steps_after_recovery");
            i += 1;
        }
        (Ok(()), syslog)
    }
}

/// See `Trial::hard_faults`: after an injected I/O error a finding is an observation.
fn downgrade(r: Result<(), Violation>, t: &Trial<'_>, out: &mut RunOut) -> Result<(), Violation> {
    match r {
        Err(v) if t.hard_fault_fired() => {
            let o = format!("observation (injected I/O error, outside C10's quantifier): {}", v.class);
            if !out.observations.contains(&o) {
                out.observations.push(o);
            }
            Ok(())
        },
        other => other,
    }
}

fn sample_offsets(len: usize) -> Vec<usize> {
    if len <= 24 {
        return (1..len).collect();
    }
    let mut v: Vec<usize> = (1..10).collect();
    let step = (len - 10) / 6;
    let mut x = 10;
    while x < len {
        v.push(x);
        x += step.max(1);
    }
    v.push(len - 1);
    v.sort_unstable();
    v.dedup();
    v
}

fn gen_steps(rng: &mut Rng, n: usize, faults: bool) -> Vec<Step> {
    let mut v = Vec::new();
    for _ in 0..n {
        let r = rng.below(100);
        let s = if r < 18 {
            Step::ReqVote { from: rng.below(2) as u8, dterm: rng.range(0, 3) as i8 - 1, log: rng.below(3) as u8 }
        } else if r < 48 {
            Step::Append {
                from: rng.below(2) as u8,
                dterm: rng.range(0, 2) as i8 - if rng.chance(1, 6) { 1 } else { 0 },
                back: *rng.pick(&[0u8, 0, 0, 1, 1, 2, 3]),
                n: rng.below(4) as u8,
                commit_back: rng.below(3) as u8,
                bad_prev: rng.chance(1, 8),
                old: *rng.pick(&[0u8, 0, 0, 1, 2]),
                big: 0,
            }
        } else if r < 51 {
            Step::Compact { back: *rng.pick(&[0u8, 0, 1, 2]) }
        } else if r < 58 {
            Step::Election
        } else if r < 70 {
            Step::VoteResp { from: rng.below(2) as u8, granted: rng.chance(3, 4), dterm: if rng.chance(1, 6) { 1 } else { 0 } }
        } else if r < 78 {
            Step::AppendResp { from: rng.below(2) as u8, ok: rng.chance(3, 4), back: rng.below(3) as u8, dterm: if rng.chance(1, 8) { 1 } else { 0 } }
        } else if r < 90 {
            if rng.chance(1, 6) {
                Step::ProposeCodebook { version: rng.below(50) as u16 }
            } else {
                Step::Propose { payload: rng.below(1000) as u32 }
            }
        } else if r < 91 {
            Step::InstallSnapshot { n: rng.below(5) as u8, dterm: rng.range(0, 1) as i8 }
        } else if r < 93 {
            Step::Tick
        } else if r < 96 || !faults {
            Step::Advance { ms: *rng.pick(&[10u32, 60, 200, 400, 6000]) }
        } else if r < 99 {
            Step::Fault { nth: rng.below(4) as u8, kind: rng.below(4) as u8 }
        } else {
            Step::DiskFull { on: rng.chance(1, 2) }
        };
        v.push(s);
    }
    v
}

impl Scenario for C10 {
    type Case = Case;
    fn id(&self) -> &'static str {
        "C10"
    }
    fn level(&self) -> &'static str {
        "fault_enumeration"
    }
    fn runs(&self, tier: Tier) -> u64 {
        match tier {
            Tier::Quick => 2500,
            Tier::Thorough => 60000,
        }
    }
    fn generate(&self, rng: &mut Rng, _tier: Tier, _index: u64) -> Case {
        let n = rng.range(3, 14) as usize;
        let faults = rng.chance(1, 5);
        let mut steps = gen_steps(rng, n, faults);
        // in half of the cases splice in the shortest path to leadership with a
        // reachable quorum, so proposals as leader are part of the explored states
        if rng.chance(1, 2) {
            let at = rng.usize_below(steps.len() + 1);
            let from = rng.below(2) as u8;
            let seq = vec![
                Step::Election,
                Step::VoteResp { from, granted: true, dterm: 0 },
                Step::AppendResp { from, ok: true, back: 0, dterm: 0 },
                Step::Propose { payload: rng.below(1000) as u32 },
            ];
            steps.splice(at..at, seq);
        }
        // a sixth of the cases: entries committed, the log compacted, then a snapshot installed
        // on the compacted log (crash points inside each of the three)
        if rng.chance(1, 6) {
            let at = rng.usize_below(steps.len() + 1);
            let from = rng.below(2) as u8;
            let seq = vec![
                Step::Append { from, dterm: rng.range(0, 1) as i8, back: 0, n: rng.range(2, 3) as u8, commit_back: 0, bad_prev: false, old: 0, big: 0 },
                Step::Compact { back: rng.below(2) as u8 },
                Step::InstallSnapshot { n: rng.below(5) as u8, dterm: 0 },
            ];
            steps.splice(at..at, seq);
        }
        let mode = if rng.chance(2, 3) {
            Mode::Enumerate
        } else {
            let k = rng.range(1, 3);
            Mode::Chain(
                (0..k)
                    .map(|_| CrashSpec {
                        nth: rng.below(2 * n as u64 + 2),
                        bytes: if rng.chance(1, 2) { Some(rng.below(80) as usize) } else { None },
                        cut: rng.below(6),
                    })
                    .collect(),
            )
        };
        // a few seeded-crash cases carry one large entry (up to 1.5 MiB of payload)
        if mode != Mode::Enumerate && rng.chance(1, 8) {
            let k = *rng.pick(&[1u8, 4, 4, 5]);
            let cands: Vec<usize> = steps.iter().enumerate().filter(|(_, s)| matches!(s, Step::Append { n, .. } if n % 4 > 0)).map(|(i, _)| i).collect();
            if !cands.is_empty() {
                let at = *rng.pick(&cands);
                if let Step::Append { big, .. } = &mut steps[at] {
                    *big = k;
                }
            }
        }
        // a few seeded-crash cases start with a long history of lost elections
        let mut mode = mode;
        if mode != Mode::Enumerate && rng.chance(1, 8) {
            steps.insert(0, Step::Churn { n: *rng.pick(&[300u16, 1100, 1100, 2200]) });
            steps.insert(1, Step::Restart);
            // seeded crashes count syscalls from the start and would all land inside the
            // churn: these programs restart cleanly (here, possibly once more below, and
            // at the end)
            mode = Mode::Chain(Vec::new());
        }
        // very few programs carry a log of 70-90 MiB (clean restarts only)
        if mode != Mode::Enumerate && rng.chance(1, 40) {
            let at = rng.usize_below(steps.len() + 1);
            steps.insert(at, Step::Bulk { from: rng.below(2) as u8, n: rng.range(58, 75) as u8 });
            steps.insert(at + 1, Step::Restart);
            mode = Mode::Chain(Vec::new());
        }
        // clean restarts between steps
        if rng.chance(1, 4) {
            let at = rng.usize_below(steps.len() + 1);
            steps.insert(at, Step::Restart);
        }
        Case { pre_vote: rng.chance(1, 2), fast_path: rng.chance(1, 2), geo: rng.chance(1, 2), steps, mode, trailing: 1 + rng.below(3) as u8 }
    }

    fn run(&self, case: &Case, ctx: &Arc<RunCtx>) -> RunOut {
        let mut out = RunOut::default();
        ctx.fp(&format!("{:?}", case.mode == Mode::Enumerate));
        let mk = |tag: u64| Trial::new(ctx, case, tag);
        match &case.mode {
            Mode::Chain(specs) => {
                let mut t = match mk(0) {
                    Ok(t) => t,
                    Err(v) => return RunOut { violation: Some(v), nontrivial: true, ..Default::default() },
                };
                let (r, _) = t.run(specs, false);
                let r = downgrade(r, &t, &mut out);
                out.inner_evals = 1;
                out.nontrivial = ctx.lock().faults.get("crash").copied().unwrap_or(0) > 0;
                if let Err(v) = r {
                    out.violation = Some(v);
                }
            },
            Mode::Enumerate => {
                let mut t = match mk(0) {
                    Ok(t) => t,
                    Err(v) => return RunOut { violation: Some(v), nontrivial: true, ..Default::default() },
                };
                let (r, syslog) = t.run(&[], true);
                let r = downgrade(r, &t, &mut out);
                out.inner_evals = 1;
                if let Err(v) = r {
                    out.violation = Some(v);
                    out.nontrivial = true;
                    return out;
                }
                ctx.lock().record_sys = false;
                let mut tag = 1;
                for (k, (_s, ev)) in syslog.iter().enumerate() {
                    ctx.fp(ev.kind);
                    let mut points: Vec<(Option<usize>, u64)> = vec![(None, 0), (None, 1)];
                    if ev.kind == "write" {
                        for b in sample_offsets(ev.len) {
                            points.push((Some(b), 0));
                        }
                    }
                    for (bytes, cut) in points {
                        let spec = CrashSpec { nth: k as u64, bytes, cut };
                        let mut t = match mk(tag) {
                            Ok(t) => t,
                            Err(v) => return RunOut { violation: Some(v), nontrivial: true, ..Default::default() },
                        };
                        tag += 1;
                        let (r, _) = t.run(std::slice::from_ref(&spec), false);
                        let r = downgrade(r, &t, &mut out);
                        out.inner_evals += 1;
                        if let Err(mut v) = r {
                            v.detail = format!("{} [crash spec {:?}]", v.detail, spec);
                            out.violation = Some(v);
                            out.nontrivial = true;
                            let mut reduced = case.clone();
                            reduced.mode = Mode::Chain(vec![spec]);
                            out.reduced = serde_json::to_value(&reduced).ok();
                            return out;
                        }
                    }
                }
                out.nontrivial = syslog.len() >= 2;
            },
        }
        out
    }

    fn shrink(&self, case: &Case) -> Vec<Case> {
        let mut v = Vec::new();
        for steps in drop_chunks(&case.steps) {
            let mut c = case.clone();
            c.steps = steps;
            v.push(c);
        }
        if let Mode::Chain(specs) = &case.mode {
            for s in drop_chunks(specs) {
                if !s.is_empty() {
                    let mut c = case.clone();
                    c.mode = Mode::Chain(s);
                    v.push(c);
                }
            }
            for (i, s) in specs.iter().enumerate() {
                if s.nth > 0 {
                    let mut c = case.clone();
                    if let Mode::Chain(ss) = &mut c.mode {
                        ss[i].nth -= 1;
                    }
                    v.push(c);
                }
                if s.bytes.is_some() {
                    let mut c = case.clone();
                    if let Mode::Chain(ss) = &mut c.mode {
                        ss[i].bytes = None;
                    }
                    v.push(c);
                }
            }
        }
        for (i, st) in case.steps.iter().enumerate() {
            if let Step::Append { big, .. } = st {
                if *big > 0 {
                    let mut c = case.clone();
                    if let Step::Append { big, .. } = &mut c.steps[i] {
                        *big = 0;
                    }
                    v.push(c);
                }
            }
        }
        for flag in 0..3 {
            let mut c = case.clone();
            let changed = match flag {
                0 => std::mem::replace(&mut c.pre_vote, false),
                1 => std::mem::replace(&mut c.fast_path, false),
                _ => std::mem::replace(&mut c.geo, false),
            };
            if changed {
                v.push(c);
            }
        }
        v
    }

    fn required_probes(&self) -> Vec<&'static str> {
        vec![
            "crash_inside_term_and_vote_record",
            "crash_inside_log_entry_record",
            "steps_after_recovery",
            "second_restart",
            "vote_requested_from_restarted_voter_same_term",
            "restart_with_nonempty_log",
            "became_leader",
            "proposed_as_leader",
            "log_compacted_in_memory",
            "entry_record_over_1mib",
            "log_of_more_than_1000_records",
            "log_of_more_than_64_mib",
        ]
    }
    fn rule(&self) -> String {
        "A case is a program of 3-14 scripted protocol steps against one WAL-backed RaftNode (vote requests, appends incl. conflict truncations, elections, vote/append responses, proposals, ticks, clock advances, optional disk faults) plus config flags; Enumerate takes every mutating syscall boundary (power-loss cut to fsynced and to written length) and sampled byte offsets of every WAL write as a crash point, each followed by the real with_wal recovery, the promise checks, the rest of the program and a final restart; Chain runs 1-3 seeded crashes. Non-trivial: a crash fired (Chain) or >=2 mutating syscalls (Enumerate). Distinct: hash of (mode, per-step role and log length, crash sites).".into()
    }
    fn components(&self) -> Value {
        json!({
            "real": ["tensor_chain::RaftNode (all message handlers, start_election_async, propose, tick_async, with_wal recovery)", "RaftWal", "RaftRecoveryState"],
            "simulated": ["disk (interposed syscalls, crash at syscall/byte, power-loss cut)", "monotonic clock", "OS randomness"],
            "stub": ["the two other voters are scripted by the step list (they are not the subject of this property)", "Transport -> SimTransport (outputs captured, released only if the step completed)"]
        })
    }
    fn assumptions(&self) -> Vec<String> {
        vec![
            "rename/truncate atomic and durable at the syscall; power loss cuts the WAL at byte-prefix granularity".into(),
            "outputs of a step torn by a crash are never sent (equivalent to the process stopping at that syscall)".into(),
            "auto-compaction from tick (threshold 10000 entries) is not reached; compaction is driven through finalize_to/create_snapshot/truncate_log".into(),
        ]
    }
}

#[allow(dead_code)]
fn _u(_: Value) {}
