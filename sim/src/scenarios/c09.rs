//! C09 — Relational transactions are all-or-nothing and writers exclude each other.
//!
//! Real `RelationalEngine` with one to three tiny tables `t`, `u`, `w`, all with
//! the columns `(a INT, b INT, c INT)`. Which kinds of index (hash, ordered,
//! both, none) each column and the row-id pseudo column `_id` of each table
//! has is part of the case (`Case::tables`); the single-table cases keep the
//! original layout `t(a hash-indexed, b ordered-indexed, c plain)`. In the
//! multi-table cases the same-named columns of two tables are indexed
//! differently, and transactions as well as auto-commit statements span the
//! tables. The reference model is per (table, row); every view (scan, every
//! equality query on each hash-indexed column, every range query on each
//! ordered-indexed column, the `_id` views) is compared for every table.
//! Two layers, chosen per case:
//!
//! * `Mode::Stmt` — statement-level interleaving on one kernel thread: 2-4
//!   transactions, each a program of tx_insert/tx_update/tx_delete/tx_select
//!   ending in commit, rollback or abandonment, interleaved with
//!   non-transactional statements, clock advances (past the row-lock timeout
//!   and past the transaction timeout) and the two public clean-up calls.
//!   After every step the full observable state (scan, every equality query on
//!   the hash-indexed column, every range query on the ordered-indexed column)
//!   is compared with the reference model.
//! * `Mode::Threads` — 2-4 OS threads under the baton scheduler, one
//!   transaction (or a stream of auto-commit statements) each, with schedule
//!   points inside tx_insert/tx_update/tx_delete/commit/rollback (hook sites
//!   `rel.*`). Row-level effects are *observed* (every update writes a unique
//!   tag into `c`; deletes are attributed through the lock table) and judged
//!   at quiescence. The acquisitions of the row-lock tables of
//!   `relational_engine::transaction` (`RowLockManager::{locks, tx_locks}`)
//!   and of the engine's per-key index locks, ordered-index map lock and DDL
//!   lock (`relational_engine/src/lib.rs`) are schedule points as well
//!   (`relational_engine::sync_compat`, sites `rel.lock` / `rel.lock.wait`),
//!   so threads are switched between the critical sections of `try_lock`,
//!   `release` and the lock queries, between `tx_insert`'s slab insert and its
//!   lock acquisition, and between the index steps of a row change.
//!
//! Engine configuration is part of the case (`max_btree`, `max_cond_depth`):
//! with a small `RelationalConfig::max_btree_entries` the ordered-index
//! maintenance of tx_insert / tx_update fails half-way (ResultTooLarge), with
//! `max_condition_depth = 0` nested conditions fail while scanning. A failed
//! statement is not judged by itself (the text is about the ends of
//! transactions); what it left in the table is observed and attributed to its
//! transaction, and rollback exactness / commit permanence / the all-or-nothing
//! outcome of a failed auto-commit statement are judged on every view
//! (`StmtRun::absorb_failed`).
//!
//! Reference model (both layers): per row the ordered list of row-level
//! effects `(tx, Insert(values) | Set(assignments) | Delete)`. The expected
//! visible value of a row is the fold of the effects of all transactions that
//! were not rolled back — "the state with that transaction's statements
//! removed" / "with them applied". Engine semantics established from the code
//! (not judged): transactional writes are applied in place and are visible to
//! every reader at once (tx_select is a plain select), non-transactional
//! update/delete/insert are one-statement transactions (so they get the
//! lock-conflict error too), a transaction past its timeout stays usable until
//! `TransactionManager::cleanup_expired` removes it, and removal keeps its
//! writes in place (like a commit).

use crate::ctx::RunCtx;
use crate::driver::{drop_chunks, RunOut, Scenario, Tier, Violation};
use crate::rng::Rng;
use crate::sched::{self, Body, STAY};
use relational_engine::{Column, ColumnType, Condition, RelationalConfig, RelationalEngine, RelationalError, Schema, Value};
use serde::{Deserialize, Serialize};
use serde_json::{json, Value as Json};
use std::collections::{BTreeMap, BTreeSet, HashMap};
use std::sync::{Arc, Mutex};

const T: &str = "t";
/// table names by table number (`tb` fields); table 0 is the original table
const TABLES: [&str; 3] = ["t", "u", "w"];
const COLS: [&str; 3] = ["a", "b", "c"];
const HASH: u8 = 1;
const ORDERED: u8 = 2;
/// (table number, row id): row ids are per table
type Rid = (u8, u64);
const A_DOM: i64 = 4; // a in 0..4
const B_DOM: i64 = 5; // b in 0..5
const C_DOM: i64 = 3; // c in 0..3 (Stmt mode); tags >= 100 in Threads mode

type Vals = [i64; 3];

#[derive(Serialize, Deserialize, Clone, Debug, PartialEq)]
pub enum Cond {
    True,
    EqA(i64),
    EqB(i64),
    EqC(i64),
    LtB(i64),
    LeB(i64),
    GtB(i64),
    GeB(i64),
    Id(u64),
    /// a = x AND b <= y
    AEqBLe(i64, i64),
    /// column (0 = a, 1 = b, 2 = c) compared with a constant
    Col(u8, Op, i64),
}

#[derive(Serialize, Deserialize, Clone, Copy, Debug, PartialEq)]
pub enum Op {
    Eq,
    Lt,
    Le,
    Gt,
    Ge,
}

impl Op {
    fn eval(self, l: i64, r: i64) -> bool {
        match self {
            Op::Eq => l == r,
            Op::Lt => l < r,
            Op::Le => l <= r,
            Op::Gt => l > r,
            Op::Ge => l >= r,
        }
    }
    fn cond(self, col: &str, x: i64) -> Condition {
        let (c, v) = (col.to_string(), Value::Int(x));
        match self {
            Op::Eq => Condition::Eq(c, v),
            Op::Lt => Condition::Lt(c, v),
            Op::Le => Condition::Le(c, v),
            Op::Gt => Condition::Gt(c, v),
            Op::Ge => Condition::Ge(c, v),
        }
    }
    fn sym(self) -> &'static str {
        match self {
            Op::Eq => "=",
            Op::Lt => "<",
            Op::Le => "<=",
            Op::Gt => ">",
            Op::Ge => ">=",
        }
    }
}

/// Index kinds of one table (part of the case).
#[derive(Serialize, Deserialize, Clone, Debug, PartialEq)]
pub struct TableSpec {
    /// per column a, b, c: bit 0 a hash index, bit 1 an ordered index
    pub cols: [u8; 3],
    /// the row-id pseudo column `_id`: same bits
    #[serde(default)]
    pub id_index: u8,
}

impl Cond {
    fn eval(&self, id: u64, v: &Vals) -> bool {
        match self {
            Cond::True => true,
            Cond::EqA(x) => v[0] == *x,
            Cond::EqB(x) => v[1] == *x,
            Cond::EqC(x) => v[2] == *x,
            Cond::LtB(x) => v[1] < *x,
            Cond::LeB(x) => v[1] <= *x,
            Cond::GtB(x) => v[1] > *x,
            Cond::GeB(x) => v[1] >= *x,
            Cond::Id(x) => id == *x,
            Cond::AEqBLe(x, y) => v[0] == *x && v[1] <= *y,
            Cond::Col(c, op, x) => op.eval(v[*c as usize % 3], *x),
        }
    }
    fn to_engine(&self) -> Condition {
        let i = |x: &i64| Value::Int(*x);
        match self {
            Cond::True => Condition::True,
            Cond::EqA(x) => Condition::Eq("a".into(), i(x)),
            Cond::EqB(x) => Condition::Eq("b".into(), i(x)),
            Cond::EqC(x) => Condition::Eq("c".into(), i(x)),
            Cond::LtB(x) => Condition::Lt("b".into(), i(x)),
            Cond::LeB(x) => Condition::Le("b".into(), i(x)),
            Cond::GtB(x) => Condition::Gt("b".into(), i(x)),
            Cond::GeB(x) => Condition::Ge("b".into(), i(x)),
            Cond::Id(x) => Condition::Eq("_id".into(), Value::Int(*x as i64)),
            Cond::AEqBLe(x, y) => Condition::Eq("a".into(), i(x)).and(Condition::Le("b".into(), i(y))),
            Cond::Col(c, op, x) => op.cond(COLS[*c as usize % 3], *x),
        }
    }
}

#[derive(Serialize, Deserialize, Clone, Debug, PartialEq, Default)]
pub struct Assign {
    pub a: Option<i64>,
    pub b: Option<i64>,
    pub c: Option<i64>,
}

impl Assign {
    fn apply(&self, v: &mut Vals) {
        if let Some(x) = self.a {
            v[0] = x;
        }
        if let Some(x) = self.b {
            v[1] = x;
        }
        if let Some(x) = self.c {
            v[2] = x;
        }
    }
    fn to_engine(&self) -> HashMap<String, Value> {
        let mut m = HashMap::new();
        if let Some(x) = self.a {
            m.insert("a".to_string(), Value::Int(x));
        }
        if let Some(x) = self.b {
            m.insert("b".to_string(), Value::Int(x));
        }
        if let Some(x) = self.c {
            m.insert("c".to_string(), Value::Int(x));
        }
        m
    }
    fn cols(&self) -> [bool; 3] {
        [self.a.is_some(), self.b.is_some(), self.c.is_some()]
    }
    fn touches_index(&self, spec: &TableSpec) -> bool {
        self.cols().iter().zip(spec.cols.iter()).any(|(set, kinds)| *set && *kinds != 0)
    }
}

fn vals_map(v: &Vals) -> HashMap<String, Value> {
    HashMap::from([
        ("a".to_string(), Value::Int(v[0])),
        ("b".to_string(), Value::Int(v[1])),
        ("c".to_string(), Value::Int(v[2])),
    ])
}

#[derive(Serialize, Deserialize, Clone, Debug, PartialEq)]
pub enum Step {
    Begin { t: u8 },
    // `tb`: table number (index into `TABLES`; numbers the case has no table for act on table 0)
    TxInsert {
        t: u8,
        #[serde(default)]
        tb: u8,
        v: Vals,
    },
    TxUpdate {
        t: u8,
        #[serde(default)]
        tb: u8,
        cond: Cond,
        set: Assign,
    },
    TxDelete {
        t: u8,
        #[serde(default)]
        tb: u8,
        cond: Cond,
    },
    TxSelect {
        t: u8,
        #[serde(default)]
        tb: u8,
        cond: Cond,
    },
    Commit { t: u8 },
    Rollback { t: u8 },
    Insert {
        #[serde(default)]
        tb: u8,
        v: Vals,
    },
    Update {
        #[serde(default)]
        tb: u8,
        cond: Cond,
        set: Assign,
    },
    Delete {
        #[serde(default)]
        tb: u8,
        cond: Cond,
    },
    /// advance both simulated clocks by `ms`
    Advance { ms: u64 },
    /// `tx_manager().cleanup_expired_locks()`
    CleanupLocks,
    /// `tx_manager().cleanup_expired()`
    CleanupTx,
}

#[derive(Serialize, Deserialize, Clone, Debug, PartialEq)]
pub enum TStmt {
    Insert {
        #[serde(default)]
        tb: u8,
        v: Vals,
    },
    Update {
        #[serde(default)]
        tb: u8,
        cond: Cond,
        set: Assign,
    },
    Delete {
        #[serde(default)]
        tb: u8,
        cond: Cond,
    },
}

#[derive(Serialize, Deserialize, Clone, Debug, PartialEq)]
pub struct Prog {
    /// 0: transaction ending in commit, 1: transaction ending in rollback,
    /// 2: stream of auto-commit statements (insert/update only)
    pub kind: u8,
    pub stmts: Vec<TStmt>,
}

#[derive(Serialize, Deserialize, Clone, Debug, PartialEq)]
pub enum Mode {
    Stmt,
    Threads,
}

#[derive(Serialize, Deserialize, Clone, Debug)]
pub struct Case {
    pub mode: Mode,
    pub lock_to_s: u64,
    pub tx_to_s: u64,
    pub init: Vec<Vals>,
    /// Stmt mode
    pub steps: Vec<Step>,
    /// Threads mode
    pub progs: Vec<Prog>,
    pub schedule: Vec<u8>,
    /// triage switch (never generated): when true a row *inserted* by a live
    /// transaction is not counted as a row that transaction "has modified", so
    /// only the consequences (rollback/commit exactness) are judged
    #[serde(default)]
    pub lenient_insert: bool,
    /// engine configuration (part of the case): `RelationalConfig::max_btree_entries`,
    /// the total number of distinct keys the ordered indexes may hold. Small values
    /// make the ordered-index maintenance of a statement FAIL half-way (after the
    /// row locks were taken and the hash index / earlier rows were changed).
    /// `None`: engine default (never reached)
    #[serde(default)]
    pub max_btree: Option<u64>,
    /// engine configuration: `RelationalConfig::max_condition_depth`. `Some(0)`
    /// makes every nested condition fail while the statement scans (before it
    /// locks or changes anything). `None`: engine default
    #[serde(default)]
    pub max_cond_depth: Option<u64>,
    /// indexes on the row-id pseudo column `_id`: bit 0 a hash index, bit 1 an
    /// ordered index (the latter only together with the default `max_btree`)
    #[serde(default)]
    pub id_index: u8,
    /// the tables of the case and their index kinds. Empty (older replay files,
    /// single-table cases): one table `t` with a hash index on a, an ordered
    /// index on b and `id_index` on `_id`
    #[serde(default)]
    pub tables: Vec<TableSpec>,
    /// initial rows of the tables 1.. (`init` are the rows of table 0)
    #[serde(default)]
    pub init_more: Vec<Vec<Vals>>,
}

impl Case {
    fn specs(&self) -> Vec<TableSpec> {
        if self.tables.is_empty() {
            vec![TableSpec { cols: [HASH, ORDERED, 0], id_index: self.id_index }]
        } else {
            self.tables.iter().take(TABLES.len()).cloned().collect()
        }
    }
}

/// table number of a step -> a table the case has
fn tbn(tb: u8, specs: &[TableSpec]) -> u8 {
    if (tb as usize) < specs.len() {
        tb
    } else {
        0
    }
}

fn rid(k: &Rid) -> String {
    format!("{}#{}", TABLES[k.0 as usize], k.1)
}

pub struct C09;

// ---------------------------------------------------------------- model ----

#[derive(Clone, Debug, PartialEq)]
enum Eff {
    Ins(Vals),
    Set(Assign),
    Del,
}

impl Eff {
    fn name(&self) -> &'static str {
        match self {
            Eff::Ins(_) => "inserted",
            Eff::Set(_) => "updated",
            Eff::Del => "deleted",
        }
    }
}

#[derive(Clone, Copy, Debug, PartialEq)]
enum St {
    Live,
    Committed,
    RolledBack,
    /// removed by cleanup_expired: writes stay (engine semantics, see header)
    Expired,
}

#[derive(Clone, Debug)]
struct MTx {
    st: St,
    started_ms: u64,
    /// global event counter value when the transaction ended
    ended_at: Option<u64>,
    /// global event counter value when the transaction began
    began_at: u64,
    wrote: BTreeSet<Rid>,
    /// wrote a row that another transaction, live at the same time, also wrote
    /// (possible only after a lock timed out and the row was taken over)
    shared: bool,
    /// kinds of statements of this transaction that returned an error half-way
    /// (engine limit reached), see `StmtRun::absorb_failed`
    failed: BTreeSet<&'static str>,
    /// a failed statement of this transaction left index entries that disagree
    /// with the table; they are judged when the transaction ends
    dirty: bool,
}

#[derive(Clone, Debug)]
struct Ev {
    tx: usize,
    eff: Eff,
    at: u64,
}

#[derive(Default)]
struct Model {
    hist: BTreeMap<Rid, Vec<Ev>>,
    txs: Vec<MTx>,
    /// row -> (tx, acquired at ms)
    locks: BTreeMap<Rid, (usize, u64)>,
    now_ms: u64,
    seq: u64,
    lock_to_ms: u64,
    tx_to_ms: u64,
    /// a transaction with `dirty` index entries was removed by the expiry sweep
    /// (its writes stay, engine semantics, not judged): index views are no longer
    /// comparable in this run
    index_unreliable: bool,
}

impl Model {
    fn begin(&mut self) -> usize {
        self.seq += 1;
        self.txs.push(MTx { st: St::Live, started_ms: self.now_ms, ended_at: None, began_at: self.seq, wrote: BTreeSet::new(), shared: false, failed: BTreeSet::new(), dirty: false });
        self.txs.len() - 1
    }
    fn value(&self, id: Rid) -> Option<Vals> {
        let mut cur: Option<Vals> = None;
        for e in self.hist.get(&id)? {
            if self.txs[e.tx].st == St::RolledBack {
                continue;
            }
            match &e.eff {
                Eff::Ins(v) => cur = Some(*v),
                Eff::Set(s) => {
                    if let Some(v) = cur.as_mut() {
                        s.apply(v);
                    }
                },
                Eff::Del => cur = None,
            }
        }
        cur
    }
    fn visible(&self) -> BTreeMap<Rid, Vals> {
        self.hist.keys().filter_map(|id| self.value(*id).map(|v| (*id, v))).collect()
    }
    /// the visible rows of one table
    fn visible_tb(&self, tb: u8) -> BTreeMap<u64, Vals> {
        self.hist.range((tb, 0)..=(tb, u64::MAX)).filter_map(|(id, _)| self.value(*id).map(|v| (id.1, v))).collect()
    }
    /// highest row id the table has ever had
    fn max_id(&self, tb: u8) -> u64 {
        self.hist.range((tb, 0)..=(tb, u64::MAX)).next_back().map_or(0, |(id, _)| id.1)
    }
    fn push(&mut self, id: Rid, tx: usize, eff: Eff) {
        self.seq += 1;
        let at = self.seq;
        self.hist.entry(id).or_default().push(Ev { tx, eff, at });
        self.txs[tx].wrote.insert(id);
    }
    fn end(&mut self, tx: usize, st: St) {
        self.seq += 1;
        self.txs[tx].st = st;
        self.txs[tx].ended_at = Some(self.seq);
        self.locks.retain(|_, (h, _)| *h != tx);
    }
    fn lock_live(&self, id: Rid) -> Option<usize> {
        match self.locks.get(&id) {
            Some((h, acq)) if self.now_ms - *acq <= self.lock_to_ms => Some(*h),
            _ => None,
        }
    }
    /// `tx` is about to write row `id`: flag it and every other live transaction
    /// that wrote the row as sharing a row
    fn mark_shared(&mut self, id: Rid, tx: usize) -> bool {
        let others: Vec<usize> = self.hist.get(&id).map(|evs| evs.iter().filter(|e| e.tx != tx && self.txs[e.tx].st == St::Live).map(|e| e.tx).collect()).unwrap_or_default();
        for o in &others {
            self.txs[*o].shared = true;
            self.txs[tx].shared = true;
        }
        !others.is_empty()
    }
    fn overlapped(&self, tx: usize) -> bool {
        self.txs[tx].shared
    }
    /// last effect of a live foreign transaction on the row (for class names)
    fn holder_effect(&self, id: Rid, holder: usize) -> &'static str {
        self.hist.get(&id).and_then(|evs| evs.iter().rev().find(|e| e.tx == holder)).map_or("locked", |e| e.eff.name())
    }
}

// --------------------------------------------------------------- engine ----

fn mk_engine(case: &Case) -> Result<RelationalEngine, String> {
    let mut cfg = RelationalConfig::default().with_lock_timeout_secs(case.lock_to_s).with_transaction_timeout_secs(case.tx_to_s);
    if let Some(n) = case.max_btree {
        cfg = cfg.with_max_btree_entries(n as usize);
    }
    if let Some(d) = case.max_cond_depth {
        cfg = cfg.with_max_condition_depth(d as usize);
    }
    let e = RelationalEngine::with_config(cfg);
    for (tb, spec) in case.specs().iter().enumerate() {
        let t = TABLES[tb];
        let schema = Schema::new(vec![Column::new("a", ColumnType::Int), Column::new("b", ColumnType::Int), Column::new("c", ColumnType::Int)]);
        e.create_table(t, schema).map_err(|x| format!("create_table {t}: {x}"))?;
        for (col, kinds) in COLS.iter().copied().zip(spec.cols.iter().copied()).chain(std::iter::once(("_id", spec.id_index))) {
            if kinds & HASH != 0 {
                e.create_index(t, col).map_err(|x| format!("create_index {t}.{col}: {x}"))?;
            }
            if kinds & ORDERED != 0 {
                e.create_btree_index(t, col).map_err(|x| format!("create_btree_index {t}.{col}: {x}"))?;
            }
            if e.has_index(t, col) != (kinds & HASH != 0) || e.has_btree_index(t, col) != (kinds & ORDERED != 0) {
                return Err(format!("indexes of {t}.{col} not registered as configured"));
            }
        }
    }
    Ok(e)
}

fn row_vals(r: &relational_engine::Row) -> Result<Vals, String> {
    let g = |c: &str| match r.get(c) {
        Some(Value::Int(x)) => Ok(*x),
        other => Err(format!("row {} column {c}: {other:?}", r.id)),
    };
    Ok([g("a")?, g("b")?, g("c")?])
}

/// rows of a select as id -> values, plus the id of a row the engine returned
/// more than once (a query answer must list a row once)
fn sel(e: &RelationalEngine, tb: u8, c: &Cond) -> Result<(BTreeMap<u64, Vals>, Option<u64>), String> {
    let t = TABLES[tb as usize];
    let rows = e.select(t, c.to_engine()).map_err(|x| format!("select {c:?} from {t}: {x}"))?;
    let mut m = BTreeMap::new();
    let mut dup = None;
    for r in &rows {
        if m.insert(r.id, row_vals(r)?).is_some() {
            dup = Some(r.id);
        }
    }
    Ok((m, dup))
}

fn fmt_rows(m: &BTreeMap<u64, Vals>) -> String {
    let v: Vec<String> = m.iter().map(|(id, v)| format!("#{id}({},{},{})", v[0], v[1], v[2])).collect();
    format!("[{}]", v.join(" "))
}

/// Compare the full observable state of table `tb` with `exp`: the table by
/// scan, every equality query on each hash-indexed column, every range query on
/// each ordered-indexed column, the `_id` views ("every table, and every query
/// answered through an index"). `extra_c`: further constants to ask column c for
/// (the Threads layer writes tags into c). Returns (view name, detail) of the
/// first difference.
fn compare_views(e: &RelationalEngine, tb: u8, spec: &TableSpec, exp: &BTreeMap<u64, Vals>, scan_only: bool, extra_c: &[i64]) -> Result<Option<(&'static str, String)>, String> {
    let t = TABLES[tb as usize];
    let (scan, dup) = sel(e, tb, &Cond::True)?;
    if let Some(id) = dup {
        return Ok(Some(("scan:duplicate-row", format!("full select from {t} returns row #{id} more than once"))));
    }
    if &scan != exp {
        return Ok(Some(("scan", format!("full select from {t} returns {} expected {}", fmt_rows(&scan), fmt_rows(exp)))));
    }
    if scan_only {
        return Ok(None);
    }
    let filt = |c: &Cond| -> BTreeMap<u64, Vals> { exp.iter().filter(|(id, v)| c.eval(**id, v)).map(|(i, v)| (*i, *v)).collect() };
    for col in 0..3u8 {
        let kinds = spec.cols[col as usize];
        if kinds == 0 {
            continue;
        }
        let name = COLS[col as usize];
        let mut xs: BTreeSet<i64> = (0..=[A_DOM, B_DOM, C_DOM][col as usize]).collect();
        xs.extend(exp.values().map(|v| v[col as usize]));
        if col == 2 {
            xs.extend(extra_c.iter().copied());
        }
        if kinds & HASH != 0 {
            for x in &xs {
                let c = Cond::Col(col, Op::Eq, *x);
                let (got, dup) = sel(e, tb, &c)?;
                if let Some(id) = dup {
                    return Ok(Some(("hash-index:duplicate-row", format!("select {name}={x} from {t} (hash index) returns row #{id} more than once; table is {}", fmt_rows(exp)))));
                }
                let want = filt(&c);
                if got != want {
                    return Ok(Some(("hash-index", format!("select {name}={x} from {t} (hash index) returns {} expected {}; table is {}", fmt_rows(&got), fmt_rows(&want), fmt_rows(exp)))));
                }
            }
        }
        if kinds & ORDERED != 0 {
            for x in &xs {
                for op in [Op::Lt, Op::Le, Op::Gt, Op::Ge] {
                    let c = Cond::Col(col, op, *x);
                    let sym = op.sym();
                    let (got, dup) = sel(e, tb, &c)?;
                    if let Some(id) = dup {
                        return Ok(Some(("ordered-index:duplicate-row", format!("select {name}{sym}{x} from {t} (ordered index) returns row #{id} more than once (it is listed under two keys of the index); table is {}", fmt_rows(exp)))));
                    }
                    let want = filt(&c);
                    if got != want {
                        return Ok(Some(("ordered-index", format!("select {name}{sym}{x} from {t} (ordered index) returns {} expected {}; table is {}", fmt_rows(&got), fmt_rows(&want), fmt_rows(exp)))));
                    }
                }
            }
        }
    }
    // the row-id pseudo column (answered through its hash / ordered index where one exists)
    let max_id = exp.keys().next_back().copied().unwrap_or(0) + 2;
    for id in 1..=max_id {
        let c = Cond::Id(id);
        let (got, _) = sel(e, tb, &c)?;
        let want = filt(&c);
        if got != want {
            return Ok(Some(("id-lookup", format!("select _id={id} from {t} returns {} expected {}; table is {}", fmt_rows(&got), fmt_rows(&want), fmt_rows(exp)))));
        }
    }
    if e.has_btree_index(t, "_id") {
        for id in 0..=max_id {
            for (name, cond) in [("<=", Condition::Le("_id".into(), Value::Int(id as i64))), (">", Condition::Gt("_id".into(), Value::Int(id as i64)))] {
                let rows = e.select(t, cond).map_err(|x| format!("select _id {name} {id} from {t}: {x}"))?;
                let mut got = BTreeMap::new();
                for r in &rows {
                    got.insert(r.id, row_vals(r)?);
                }
                let want: BTreeMap<u64, Vals> = exp.iter().filter(|(i, _)| if name == "<=" { **i <= id } else { **i > id }).map(|(i, v)| (*i, *v)).collect();
                if got != want || rows.len() != got.len() {
                    return Ok(Some(("id-ordered-index", format!("select _id {name} {id} from {t} (ordered index) returns {} expected {}; table is {}", fmt_rows(&got), fmt_rows(&want), fmt_rows(exp)))));
                }
            }
        }
    }
    Ok(None)
}

/// `compare_views` over every table of the case, first difference
fn compare_all(e: &RelationalEngine, specs: &[TableSpec], m: &Model, scan_only: bool, extra_c: &[i64]) -> Result<Option<(&'static str, String)>, String> {
    for (tb, spec) in specs.iter().enumerate() {
        if let Some(d) = compare_views(e, tb as u8, spec, &m.visible_tb(tb as u8), scan_only, extra_c)? {
            return Ok(Some(d));
        }
    }
    Ok(None)
}

#[derive(Debug, Clone, Copy, PartialEq)]
enum FailKind {
    /// `ResultTooLarge`: an engine limit (max_btree_entries) was reached; inside
    /// tx_insert/tx_update this happens after the row locks were taken
    Limit,
    /// `ConditionTooDeep`: raised while the statement scans, before any lock
    Depth,
}

#[derive(Debug)]
enum Out {
    Ok(usize),
    Conflict,
    NoTx,
    /// the statement failed because a configured engine limit was reached
    Fail(FailKind, String),
    Other(String),
}

fn classify<Tv>(r: Result<Tv, RelationalError>, n: impl Fn(&Tv) -> usize) -> Out {
    match r {
        Ok(v) => Out::Ok(n(&v)),
        Err(RelationalError::LockConflict { .. }) => Out::Conflict,
        Err(RelationalError::TransactionNotFound(_)) | Err(RelationalError::TransactionInactive(_)) => Out::NoTx,
        Err(e @ RelationalError::ResultTooLarge { .. }) => Out::Fail(FailKind::Limit, strip_ids(&e.to_string())),
        Err(e @ RelationalError::ConditionTooDeep { .. }) => Out::Fail(FailKind::Depth, strip_ids(&e.to_string())),
        Err(e) => Out::Other(strip_ids(&e.to_string())),
    }
}

/// error texts may contain process-global transaction ids
fn strip_ids(s: &str) -> String {
    let mut out = String::new();
    let mut prev_digit = false;
    for ch in s.chars() {
        if ch.is_ascii_digit() {
            if !prev_digit {
                out.push('N');
            }
            prev_digit = true;
        } else {
            out.push(ch);
            prev_digit = false;
        }
    }
    out
}

fn viol(class: impl Into<String>, detail: impl Into<String>) -> Violation {
    Violation { class: class.into(), detail: detail.into() }
}

// ----------------------------------------------------- statement layer ----

struct StmtRun<'a> {
    ctx: &'a Arc<RunCtx>,
    case: &'a Case,
    e: RelationalEngine,
    specs: Vec<TableSpec>,
    m: Model,
    /// slot -> (engine tx id, model tx)
    slots: BTreeMap<u8, (u64, usize)>,
    stmts_done: u64,
}

enum Kind {
    Update(Assign),
    Delete,
}

impl<'a> StmtRun<'a> {
    /// the property clause under "lock residue": when T ends or its lock times
    /// out ... active_lock_count / is_row_locked show no residue
    fn check_locks(&self, after: &str) -> Option<Violation> {
        for tb in 0..self.specs.len() as u8 {
            for id in 1..=self.m.max_id(tb) + 1 {
                let k = (tb, id);
                if self.m.lock_live(k).is_none() && self.e.tx_manager().is_row_locked(TABLES[tb as usize], id) {
                    let why = if self.m.locks.contains_key(&k) { "lock-timed-out" } else { "holder-ended-or-never-locked" };
                    return Some(viol(
                        format!("lock-residue:is_row_locked:{why}"),
                        format!("after {after}: is_row_locked(row {}) is true but no live transaction holds an unexpired lock on it", rid(&k)),
                    ));
                }
            }
        }
        let n = self.e.tx_manager().active_lock_count();
        if n > self.m.locks.len() {
            return Some(viol(
                "lock-residue:active_lock_count",
                format!("after {after}: active_lock_count()={n} but live transactions hold only {} row locks", self.m.locks.len()),
            ));
        }
        None
    }

    fn check_state(&self, after: &str, suffix: &str) -> Result<Option<Violation>, String> {
        // index entries left behind by a statement that failed half-way are judged when
        // its transaction ends (see absorb_failed); until then only the tables are compared
        let scan_only = self.m.index_unreliable || self.m.txs.iter().any(|t| t.st == St::Live && t.dirty);
        if let Some((view, d)) = compare_all(&self.e, &self.specs, &self.m, scan_only, &[])? {
            // one class for every view when the transaction lost a row lock to another
            // transaction before it ended (lock timed out and was taken over)
            let class = if suffix.is_empty() { format!("state-mismatch:after-{after}:{view}") } else { format!("state-mismatch:after-{after}{suffix}") };
            return Ok(Some(viol(class, format!("after {after}: {d}"))));
        }
        Ok(self.check_locks(after))
    }

    /// update/delete by model tx `mt` (engine outcome `out`)
    fn judge_write(&mut self, who: &str, mt: usize, tb: u8, cond: &Cond, kind: &Kind, out: &Out) -> Option<Violation> {
        let vis = self.m.visible_tb(tb);
        let matched: Vec<Rid> = vis.iter().filter(|(id, v)| cond.eval(**id, v)).map(|(i, _)| (tb, *i)).collect();
        let tname = TABLES[tb as usize];
        let op = match kind {
            Kind::Update(_) => "update",
            Kind::Delete => "delete",
        };
        // "While a transaction has modified a row, no other transaction can modify or
        // delete that row: it receives a lock-conflict error instead"
        let mut blocker: Option<(Rid, usize)> = None;
        for id in &matched {
            if let Some(h) = self.m.lock_live(*id) {
                if h != mt {
                    blocker = Some((*id, h));
                    break;
                }
            }
        }
        for id in &matched {
            if let Some((h, _)) = self.m.locks.get(id) {
                if *h != mt && self.m.lock_live(*id).is_none() {
                    self.ctx.probe("expired_lock_on_matched_row");
                }
            }
        }
        match (blocker, out) {
            (Some(_), Out::Conflict) => {
                self.ctx.probe("lock_conflict_observed");
                self.ctx.fp("conflict");
                None
            },
            (Some((id, h)), Out::Ok(_)) => {
                let eff = self.m.holder_effect(id, h);
                Some(viol(
                    format!("missing-lock-conflict:{op}-of-row-{eff}-by-live-tx"),
                    format!("{who} {op} {tname} {cond:?} succeeded although row {} was {eff} by another transaction that is still live and whose lock has not timed out", rid(&id)),
                ))
            },
            (None, Out::Conflict) => {
                // "the locks disappear when the first one ends or times out"
                let why = if matched.iter().any(|id| self.m.locks.contains_key(id)) { "lock-timed-out" } else { "no-live-holder" };
                Some(viol(
                    format!("spurious-lock-conflict:{why}"),
                    format!("{who} {op} {tname} {cond:?} got a lock conflict although no matched row {matched:?} is held by a live transaction with an unexpired lock"),
                ))
            },
            (None, Out::Ok(n)) => {
                let mut takeover = false;
                for id in &matched {
                    if self.m.mark_shared(*id, mt) {
                        takeover = true;
                    }
                    self.m.locks.insert(*id, (mt, self.m.now_ms));
                    match kind {
                        Kind::Update(s) => self.m.push(*id, mt, Eff::Set(s.clone())),
                        Kind::Delete => self.m.push(*id, mt, Eff::Del),
                    }
                }
                if takeover {
                    self.ctx.probe("lock_expired_taken_by_other");
                    self.ctx.fp("takeover");
                }
                if *n != matched.len() {
                    return Some(viol(
                        format!("stmt-count-mismatch:{op}"),
                        format!("{who} {op} {tname} {cond:?} returned {n} but {} rows match ({matched:?})", matched.len()),
                    ));
                }
                None
            },
            (_, Out::NoTx) => Some(viol(format!("live-tx-rejected:{op}"), format!("{who} {op}: the engine does not know this live transaction"))),
            (b, Out::Fail(kind, e)) => {
                if !self.knob_set(*kind) {
                    return Some(viol(format!("unexpected-error:{op}"), format!("{who} {op} {tname} {cond:?}: {e}")));
                }
                // "it receives a lock-conflict error instead": an index limit is reached only
                // while rows are being changed, i.e. the statement went past the lock check
                if let (Some((id, h)), FailKind::Limit) = (b, kind) {
                    let eff = self.m.holder_effect(id, h);
                    return Some(viol(
                        format!("missing-lock-conflict:{op}-of-row-{eff}-by-live-tx"),
                        format!("{who} {op} {tname} {cond:?} started changing rows (and failed with: {e}) although row {} was {eff} by another transaction that is still live and whose lock has not timed out", rid(&id)),
                    ));
                }
                // what the failed statement left behind is absorbed by the caller (absorb_failed)
                None
            },
            (_, Out::Other(e)) => Some(viol(format!("unexpected-error:{op}"), format!("{who} {op} {tname} {cond:?}: {e}"))),
        }
    }

    fn knob_set(&self, kind: FailKind) -> bool {
        match kind {
            FailKind::Limit => self.case.max_btree.is_some(),
            FailKind::Depth => self.case.max_cond_depth.is_some(),
        }
    }

    /// A statement of the live transaction `mt` returned an error because a
    /// configured engine limit was reached. The property text says nothing about
    /// the state *between* a failed statement and the end of its transaction, so
    /// nothing is judged here: whatever the statement changed in the table is
    /// observed and recorded as effects of `mt` (so that "as if none of the
    /// transaction's statements had run" / "makes all of them permanent" are
    /// judged exactly when the transaction ends), the row locks it took are
    /// observed through `row_lock_holder`, and index entries that now disagree
    /// with the table mark the transaction `dirty` (index views are compared
    /// again when it ends).
    fn absorb_failed(&mut self, i: usize, who: &str, mt: usize, tx: u64, tb: u8, op: &'static str, kind: FailKind, cond: Option<&Cond>) -> Result<(), String> {
        self.ctx.probe("stmt_failed");
        // the statement's own table (any trace in another table shows up as a table
        // mismatch in the state check that follows)
        let tname = TABLES[tb as usize];
        let tshow = if self.specs.len() > 1 { format!("{tname} ") } else { String::new() };
        let before = self.m.visible_tb(tb);
        let (scan, _) = sel(&self.e, tb, &Cond::True)?;
        let mut touched: BTreeSet<u64> = match cond {
            Some(c) => before.iter().filter(|(id, v)| c.eval(**id, v)).map(|(id, _)| *id).collect(),
            None => BTreeSet::new(),
        };
        let ids: BTreeSet<u64> = before.keys().chain(scan.keys()).copied().collect();
        let mut changed = 0;
        for id in ids {
            let eff = match (before.get(&id), scan.get(&id)) {
                (a, b) if a == b => continue,
                (None, Some(v)) => Eff::Ins(*v),
                (_, None) => Eff::Del,
                (Some(_), Some(v)) => Eff::Set(Assign { a: Some(v[0]), b: Some(v[1]), c: Some(v[2]) }),
            };
            changed += 1;
            touched.insert(id);
            self.m.mark_shared((tb, id), mt);
            self.m.push((tb, id), mt, eff);
        }
        for id in &touched {
            if self.e.tx_manager().row_lock_holder(tname, *id) == Some(tx) && kind == FailKind::Limit {
                let id = &(tb, *id);
                self.m.locks.insert(*id, (mt, self.m.now_ms));
                // the statement locked the row and may hold an undo image of it although the
                // table row is unchanged: the row counts as written by `mt` (a later takeover
                // of the timed-out lock is the known lock-takeover situation)
                if !self.m.hist.get(id).is_some_and(|evs| evs.iter().any(|e| e.tx == mt)) {
                    self.m.mark_shared(*id, mt);
                    self.m.push(*id, mt, Eff::Set(Assign::default()));
                }
            }
        }
        // a failed insert takes its row back out; the lock it took on the new row id
        // (ids are never reused) stays with the live transaction until that ends,
        // like the lock on any row a statement locked and then left unchanged
        let max_id = self.m.max_id(tb).max(scan.keys().next_back().copied().unwrap_or(0));
        for id in 1..=max_id + 16 {
            if !touched.contains(&id) && !self.m.locks.contains_key(&(tb, id)) && self.e.tx_manager().row_lock_holder(tname, id) == Some(tx) {
                self.m.locks.insert((tb, id), (mt, self.m.now_ms));
                self.ctx.probe("failed_stmt_keeps_lock_on_absent_row");
            }
        }
        let dirty = compare_all(&self.e, &self.specs, &self.m, false, &[])?.is_some();
        if dirty {
            self.m.txs[mt].dirty = true;
            self.ctx.probe("failed_stmt_left_index_inconsistent");
        }
        if changed > 0 {
            self.ctx.probe("failed_stmt_changed_rows");
        }
        if !dirty && changed == 0 {
            self.ctx.probe("failed_stmt_changed_nothing");
        }
        // a statement that failed while it scanned (Depth) and left no trace is not a
        // half-applied statement
        if kind == FailKind::Limit || changed > 0 {
            self.m.txs[mt].failed.insert(op);
        }
        self.ctx.fp(&format!("failed:{op}:{}:{}", changed.min(2), dirty));
        self.ctx.event(&format!("{i} {who} {op} {tshow}failed ({kind:?}): {changed} table rows changed, index views {}", if dirty { "disagree with the table" } else { "agree with the table" }));
        Ok(())
    }

    /// Does transaction `mt` span tables: (it wrote rows of two tables; it updated or
    /// deleted, in two tables, a same-named column that the two tables index differently)
    fn span(&self, mt: usize) -> (bool, bool) {
        // per table: columns a, b, c, _id whose index entries the transaction's updates / deletes changed
        let mut cols: BTreeMap<u8, [bool; 4]> = BTreeMap::new();
        let mut tables: BTreeSet<u8> = BTreeSet::new();
        for id in &self.m.txs[mt].wrote {
            tables.insert(id.0);
            for e in self.m.hist[id].iter().filter(|e| e.tx == mt) {
                let c = cols.entry(id.0).or_insert([false; 4]);
                match &e.eff {
                    Eff::Set(s) => {
                        for (k, set) in s.cols().iter().enumerate() {
                            c[k] |= *set;
                        }
                    },
                    Eff::Del => *c = [true; 4],
                    Eff::Ins(_) => {},
                }
            }
        }
        let kinds = |tb: u8, k: usize| if k < 3 { self.specs[tb as usize].cols[k] } else { self.specs[tb as usize].id_index };
        let diff = cols.iter().any(|(t1, c1)| cols.iter().any(|(t2, c2)| t1 < t2 && (0..4).any(|k| c1[k] && c2[k] && kinds(*t1, k) != kinds(*t2, k))));
        (tables.len() >= 2, diff)
    }

    /// class suffix for the state check at the end of transaction `mt`
    fn end_suffix(&self, mt: usize) -> String {
        if self.m.overlapped(mt) && !self.m.txs[mt].failed.is_empty() {
            // both known findings at once (lock takeover, half-applied failed statement)
            "+after-lock-takeover+after-failed-stmt".into()
        } else if self.m.overlapped(mt) {
            "+after-lock-takeover".into()
        } else if !self.m.txs[mt].failed.is_empty() {
            // a failed tx_insert (known finding: its row is never undone) decides the class
            let ops: Vec<&str> = if self.m.txs[mt].failed.contains("insert") { vec!["insert"] } else { self.m.txs[mt].failed.iter().copied().collect() };
            format!("+after-failed-{}", ops.join("-"))
        } else {
            String::new()
        }
    }

    fn run(&mut self) -> Result<Option<Violation>, String> {
        // the initial rows are ordinary auto-commit inserts (they may hit the configured
        // index limit like any other)
        self.ctx.event("init");
        let init = self.case.init.clone();
        for (k, v) in init.iter().enumerate() {
            if let Some(v) = self.step(k, &Step::Insert { tb: 0, v: *v })? {
                return Ok(Some(v));
            }
        }
        let more = self.case.init_more.clone();
        for (tb, rows) in more.iter().enumerate().take(self.specs.len().saturating_sub(1)) {
            for (k, v) in rows.iter().enumerate() {
                if let Some(v) = self.step(k, &Step::Insert { tb: tb as u8 + 1, v: *v })? {
                    return Ok(Some(v));
                }
            }
        }
        self.ctx.event("steps");
        if let Some(v) = self.check_state("setup", "")? {
            return Ok(Some(v));
        }
        let steps = self.case.steps.clone();
        for (i, st) in steps.iter().enumerate() {
            if let Some(v) = self.step(i, st)? {
                return Ok(Some(v));
            }
        }
        // quiescence: let every abandoned transaction time out and be cleaned up
        self.ctx.advance_ms(self.m.tx_to_ms + 1);
        self.m.now_ms += self.m.tx_to_ms + 1;
        let _ = self.e.tx_manager().cleanup_expired();
        for t in 0..self.m.txs.len() {
            if self.m.txs[t].st == St::Live {
                self.ctx.probe("abandoned_tx_expired_at_end");
                if self.m.txs[t].dirty {
                    self.m.index_unreliable = true;
                }
                self.m.end(t, St::Expired);
            }
        }
        let _ = self.e.tx_manager().cleanup_expired_locks();
        self.m.locks.clear();
        self.ctx.event("quiescence");
        if let Some(v) = self.check_state("quiescence", "")? {
            return Ok(Some(v));
        }
        if self.e.tx_manager().active_lock_count() != 0 {
            return Ok(Some(viol("lock-residue:at-quiescence", format!("active_lock_count()={} after every transaction ended", self.e.tx_manager().active_lock_count()))));
        }
        let slots = self.slots.clone();
        for (s, (tx, _)) in slots {
            if let Some(v) = self.use_finished(&format!("T{s}"), tx, "quiescence") {
                return Ok(Some(v));
            }
        }
        Ok(None)
    }

    /// "Finished transactions cannot be used again."
    fn use_finished(&self, who: &str, tx: u64, at: &str) -> Option<Violation> {
        let e = &self.e;
        let calls: [(&str, bool); 6] = [
            ("tx_select", e.tx_select(tx, T, Condition::True).is_ok()),
            ("tx_update", e.tx_update(tx, T, Condition::Eq("a".into(), Value::Int(99)), HashMap::from([("c".to_string(), Value::Int(0))])).is_ok()),
            ("tx_delete", e.tx_delete(tx, T, Condition::Eq("a".into(), Value::Int(99))).is_ok()),
            ("commit", e.commit(tx).is_ok()),
            ("rollback", e.rollback(tx).is_ok()),
            ("is_transaction_active", e.is_transaction_active(tx)),
        ];
        for (name, ok) in calls {
            if ok {
                return Some(viol(format!("finished-tx-usable:{name}"), format!("{at}: {name} on finished transaction {who} succeeded")));
            }
        }
        None
    }

    fn step(&mut self, i: usize, st: &Step) -> Result<Option<Violation>, String> {
        let ctx = self.ctx;
        let slot_of = |st: &Step| match st {
            Step::Begin { t } | Step::TxInsert { t, .. } | Step::TxUpdate { t, .. } | Step::TxDelete { t, .. } | Step::TxSelect { t, .. } | Step::Commit { t } | Step::Rollback { t } => Some(*t),
            _ => None,
        };
        // transactional step on a slot that was never begun: no-op
        if let Some(t) = slot_of(st) {
            if !matches!(st, Step::Begin { .. }) && !self.slots.contains_key(&t) {
                return Ok(None);
            }
        }
        let mut after = "tx-stmt";
        let mut suffix = String::new();
        // the table of a statement step
        let tb = match st {
            Step::TxInsert { tb, .. } | Step::TxUpdate { tb, .. } | Step::TxDelete { tb, .. } | Step::TxSelect { tb, .. } | Step::Insert { tb, .. } | Step::Update { tb, .. } | Step::Delete { tb, .. } => tbn(*tb, &self.specs),
            _ => 0,
        };
        let tname = TABLES[tb as usize];
        // event logs of single-table cases stay those of the older replay files
        let tshow = if self.specs.len() > 1 { format!("{tname} ") } else { String::new() };
        if tb > 0 {
            ctx.probe("stmt_on_further_table");
        }
        match st {
            Step::Begin { t } => {
                if self.slots.contains_key(t) {
                    return Ok(None);
                }
                let tx = self.e.begin_transaction();
                let mt = self.m.begin();
                self.slots.insert(*t, (tx, mt));
                ctx.event(&format!("{i} begin T{t}"));
                after = "begin";
            },
            Step::TxInsert { .. } | Step::TxUpdate { .. } | Step::TxDelete { .. } | Step::TxSelect { .. } | Step::Commit { .. } | Step::Rollback { .. } => {
                let t = slot_of(st).unwrap();
                let (tx, mt) = self.slots[&t];
                let who = format!("T{t}");
                if self.m.txs[mt].st != St::Live {
                    // "Finished transactions cannot be used again."
                    let before = self.m.visible();
                    let (name, out) = match st {
                        Step::TxInsert { v, .. } => ("tx_insert", classify(self.e.tx_insert(tx, tname, vals_map(v)), |_| 1)),
                        Step::TxUpdate { cond, set, .. } => ("tx_update", classify(self.e.tx_update(tx, tname, cond.to_engine(), set.to_engine()), |n| *n)),
                        Step::TxDelete { cond, .. } => ("tx_delete", classify(self.e.tx_delete(tx, tname, cond.to_engine()), |n| *n)),
                        Step::TxSelect { cond, .. } => ("tx_select", classify(self.e.tx_select(tx, tname, cond.to_engine()), Vec::len)),
                        Step::Commit { .. } => ("commit", classify(self.e.commit(tx), |_| 0)),
                        _ => ("rollback", classify(self.e.rollback(tx), |_| 0)),
                    };
                    ctx.event(&format!("{i} {name} on finished {who} -> {out:?}"));
                    ctx.probe("use_after_finish");
                    if !matches!(out, Out::NoTx) {
                        return Ok(Some(viol(format!("finished-tx-usable:{name}"), format!("step {i}: {name} on finished transaction {who} returned {out:?}"))));
                    }
                    let _ = before;
                    after = "finished-use";
                } else {
                    match st {
                        Step::TxInsert { v, .. } => {
                            let r = self.e.tx_insert(tx, tname, vals_map(v));
                            match r {
                                Ok(id) => {
                                    ctx.event(&format!("{i} {who} insert {tshow}{v:?} -> #{id}"));
                                    if self.m.hist.contains_key(&(tb, id)) {
                                        return Ok(Some(viol("row-id-reused", format!("step {i}: tx_insert into {tname} returned row id #{id} which already identifies another row"))));
                                    }
                                    self.m.push((tb, id), mt, Eff::Ins(*v));
                                    if !self.case.lenient_insert {
                                        self.m.locks.insert((tb, id), (mt, self.m.now_ms));
                                    }
                                },
                                Err(e) => match classify::<u64>(Err(e), |_| 1) {
                                    Out::Fail(kind, msg) if self.knob_set(kind) => {
                                        ctx.event(&format!("{i} {who} insert {tshow}{v:?} -> Fail({kind:?})"));
                                        let _ = msg;
                                        self.absorb_failed(i, &who, mt, tx, tb, "insert", kind, None)?;
                                        after = "failed-stmt";
                                    },
                                    out => return Ok(Some(viol("unexpected-error:insert", format!("step {i}: {who} tx_insert {tname} {v:?}: {out:?}")))),
                                },
                            }
                        },
                        Step::TxUpdate { cond, set, .. } => {
                            let out = classify(self.e.tx_update(tx, tname, cond.to_engine(), set.to_engine()), |n| *n);
                            ctx.event(&format!("{i} {who} update {tshow}{cond:?} {set:?} -> {out:?}"));
                            if matches!(out, Out::Conflict) {
                                after = "conflict";
                            }
                            if let Some(mut v) = self.judge_write(&who, mt, tb, cond, &Kind::Update(set.clone()), &out) {
                                v.detail = format!("step {i}: {}", v.detail);
                                return Ok(Some(v));
                            }
                            if let Out::Fail(kind, _) = &out {
                                self.absorb_failed(i, &who, mt, tx, tb, "update", *kind, Some(cond))?;
                                after = "failed-stmt";
                            }
                        },
                        Step::TxDelete { cond, .. } => {
                            let out = classify(self.e.tx_delete(tx, tname, cond.to_engine()), |n| *n);
                            ctx.event(&format!("{i} {who} delete {tshow}{cond:?} -> {out:?}"));
                            if matches!(out, Out::Conflict) {
                                after = "conflict";
                            }
                            if let Some(mut v) = self.judge_write(&who, mt, tb, cond, &Kind::Delete, &out) {
                                v.detail = format!("step {i}: {}", v.detail);
                                return Ok(Some(v));
                            }
                            if let Out::Fail(kind, _) = &out {
                                self.absorb_failed(i, &who, mt, tx, tb, "delete", *kind, Some(cond))?;
                                after = "failed-stmt";
                            }
                        },
                        Step::TxSelect { cond, .. } => {
                            let out = classify(self.e.tx_select(tx, tname, cond.to_engine()), Vec::len);
                            ctx.event(&format!("{i} {who} select {tshow}{cond:?} -> {out:?}"));
                            let limited = matches!(&out, Out::Fail(kind, _) if self.knob_set(*kind));
                            if !matches!(out, Out::Ok(_)) && !limited {
                                return Ok(Some(viol("live-tx-rejected:select", format!("step {i}: {who} tx_select {tname} {cond:?} -> {out:?}"))));
                            }
                        },
                        Step::Commit { .. } => {
                            let out = classify(self.e.commit(tx), |_| 0);
                            ctx.event(&format!("{i} commit {who} -> {out:?}"));
                            if !matches!(out, Out::Ok(_)) {
                                return Ok(Some(viol("commit-failed", format!("step {i}: commit of live transaction {who} -> {out:?}"))));
                            }
                            if !self.m.txs[mt].wrote.is_empty() {
                                ctx.probe("commit_with_writes");
                            }
                            if self.span(mt).0 {
                                ctx.probe("commit_spans_tables");
                            }
                            suffix = self.end_suffix(mt);
                            if !self.m.txs[mt].failed.is_empty() {
                                ctx.probe("commit_after_failed_stmt");
                            }
                            self.m.end(mt, St::Committed);
                            after = "commit";
                            ctx.fp("commit");
                        },
                        _ => {
                            let touched_index = self.m.txs[mt].wrote.iter().any(|id| {
                                self.m.hist[id].iter().any(|e| e.tx == mt && !matches!(&e.eff, Eff::Set(s) if !s.touches_index(&self.specs[id.0 as usize])))
                            });
                            let (spans, spans_diff) = self.span(mt);
                            let overl = self.m.overlapped(mt);
                            let out = classify(self.e.rollback(tx), |_| 0);
                            ctx.event(&format!("{i} rollback {who} -> {out:?}"));
                            match &out {
                                Out::Ok(_) => {},
                                Out::Other(e) if overl => {
                                    // undo of a row another transaction changed meanwhile: the
                                    // state is what is judged, not the returned error
                                    ctx.probe("rollback_error_after_overlap");
                                    let _ = e;
                                },
                                // the undo could not put an ordered-index key back because the
                                // configured limit is reached again (other statements used the room)
                                Out::Other(e) if self.case.max_btree.is_some() && e.contains("btree") => {
                                    return Ok(Some(viol("rollback-failed:ordered-index-full", format!("step {i}: rollback of live transaction {who} -> {out:?}"))));
                                },
                                _ => return Ok(Some(viol("rollback-failed", format!("step {i}: rollback of live transaction {who} -> {out:?}")))),
                            }
                            if touched_index {
                                ctx.probe("rollback_touched_indexed_column");
                            }
                            if spans {
                                ctx.probe("rollback_spans_tables");
                                ctx.fp("rollback-spans-tables");
                            }
                            if spans_diff {
                                ctx.probe("rollback_spans_differently_indexed_column");
                            }
                            suffix = self.end_suffix(mt);
                            if overl {
                                ctx.probe("rollback_after_overlap");
                            }
                            if !self.m.txs[mt].failed.is_empty() {
                                ctx.probe("rollback_after_failed_stmt");
                            }
                            self.m.end(mt, St::RolledBack);
                            after = "rollback";
                            ctx.fp("rollback");
                        },
                    }
                    self.stmts_done += 1;
                }
            },
            Step::Insert { v, .. } => {
                match self.e.insert(tname, vals_map(v)) {
                    Ok(id) => {
                        ctx.event(&format!("{i} auto insert {tshow}{v:?} -> #{id}"));
                        if self.m.hist.contains_key(&(tb, id)) {
                            return Ok(Some(viol("row-id-reused", format!("step {i}: insert into {tname} returned row id #{id} which already identifies another row"))));
                        }
                        let mt = self.m.begin();
                        self.m.push((tb, id), mt, Eff::Ins(*v));
                        self.m.end(mt, St::Committed);
                    },
                    // "all-or-nothing": the engine runs the statement as a one-statement
                    // transaction and rolls it back on error, so nothing of it may remain
                    Err(e) => match classify::<u64>(Err(e), |_| 1) {
                        Out::Fail(kind, _) if self.knob_set(kind) => {
                            ctx.event(&format!("{i} auto insert {tshow}{v:?} -> Fail({kind:?})"));
                            ctx.probe("failed_auto_stmt");
                            suffix = "+after-failed-insert".into();
                        },
                        out => return Ok(Some(viol("unexpected-error:insert", format!("step {i}: insert {tname} {v:?}: {out:?}")))),
                    },
                }
                after = "auto-stmt";
            },
            Step::Update { cond, set, .. } => {
                let out = classify(self.e.update(tname, cond.to_engine(), set.to_engine()), |n| *n);
                ctx.event(&format!("{i} auto update {tshow}{cond:?} {set:?} -> {out:?}"));
                after = if matches!(out, Out::Conflict) { "conflict" } else { "auto-stmt" };
                let mt = self.m.begin();
                let r = self.judge_write("auto-commit", mt, tb, cond, &Kind::Update(set.clone()), &out);
                self.m.end(mt, if matches!(out, Out::Ok(_)) { St::Committed } else { St::RolledBack });
                if matches!(out, Out::Fail(..)) {
                    ctx.probe("failed_auto_stmt");
                    suffix = "+after-failed-update".into();
                }
                if let Some(mut v) = r {
                    v.detail = format!("step {i}: {}", v.detail);
                    return Ok(Some(v));
                }
            },
            Step::Delete { cond, .. } => {
                let out = classify(self.e.delete_rows(tname, cond.to_engine()), |n| *n);
                ctx.event(&format!("{i} auto delete {tshow}{cond:?} -> {out:?}"));
                after = if matches!(out, Out::Conflict) { "conflict" } else { "auto-stmt" };
                let mt = self.m.begin();
                let r = self.judge_write("auto-commit", mt, tb, cond, &Kind::Delete, &out);
                self.m.end(mt, if matches!(out, Out::Ok(_)) { St::Committed } else { St::RolledBack });
                if matches!(out, Out::Fail(..)) {
                    ctx.probe("failed_auto_stmt");
                    suffix = "+after-failed-delete".into();
                }
                if let Some(mut v) = r {
                    v.detail = format!("step {i}: {}", v.detail);
                    return Ok(Some(v));
                }
            },
            Step::Advance { ms } => {
                ctx.advance_ms(*ms);
                self.m.now_ms += *ms;
                ctx.event(&format!("{i} advance {ms}ms"));
                after = "advance";
            },
            Step::CleanupLocks => {
                let n = self.e.tx_manager().cleanup_expired_locks();
                let now = self.m.now_ms;
                let to = self.m.lock_to_ms;
                self.m.locks.retain(|_, (_, acq)| now - *acq <= to);
                ctx.event(&format!("{i} cleanup_expired_locks -> {n}"));
                after = "cleanup";
            },
            Step::CleanupTx => {
                let n = self.e.tx_manager().cleanup_expired();
                for t in 0..self.m.txs.len() {
                    if self.m.txs[t].st == St::Live && self.m.now_ms - self.m.txs[t].started_ms > self.m.tx_to_ms {
                        if self.m.txs[t].dirty {
                            self.m.index_unreliable = true;
                        }
                        self.m.end(t, St::Expired);
                        ctx.probe("tx_expired_by_clock");
                        ctx.fp("tx-expired");
                    }
                }
                ctx.event(&format!("{i} cleanup_expired -> {n}"));
                after = "cleanup";
            },
        }
        self.check_state(after, &suffix)
    }
}

// -------------------------------------------------------- thread layer ----

#[derive(Clone, Debug)]
enum Obs {
    Stmt { th: usize, si: usize, out: String, effs: Vec<(Rid, Eff)> },
    End { th: usize, committed: bool, out: String, wrote_now: BTreeMap<Rid, Option<Vals>> },
}

struct Shared {
    obs: Vec<Obs>,
    /// an observation window of a thread body that must contain no schedule point did
    /// contain one (harness error: the attribution of row changes would be unsound)
    broken: Option<String>,
}

/// statement text for the event log (single-table cases: the text of the older replay files)
fn show_stmt(s: &TStmt, ntab: usize) -> String {
    if ntab > 1 {
        return format!("{s:?}");
    }
    match s {
        TStmt::Insert { v, .. } => format!("Insert {{ v: {v:?} }}"),
        TStmt::Update { cond, set, .. } => format!("Update {{ cond: {cond:?}, set: {set:?} }}"),
        TStmt::Delete { cond, .. } => format!("Delete {{ cond: {cond:?} }}"),
    }
}

fn tag_of(th: usize, si: usize) -> i64 {
    100 + (th as i64) * 10 + si as i64
}

fn run_threads_case(case: &Case, ctx: &Arc<RunCtx>) -> Result<(Option<Violation>, bool), String> {
    let e = Arc::new(mk_engine(case)?);
    let specs = case.specs();
    let mut init: BTreeMap<Rid, Vals> = BTreeMap::new();
    for (tb, rows) in std::iter::once(&case.init).chain(case.init_more.iter()).enumerate().take(specs.len()) {
        for v in rows {
            let id = e.insert(TABLES[tb], vals_map(v)).map_err(|x| format!("init insert: {x}"))?;
            init.insert((tb as u8, id), *v);
        }
    }
    let ntab = specs.len();
    let shared = Arc::new(Mutex::new(Shared { obs: Vec::new(), broken: None }));
    let mut bodies: Vec<Body> = Vec::new();
    for (th, prog) in case.progs.iter().enumerate() {
        let e = e.clone();
        let mut prog = prog.clone();
        for s in &mut prog.stmts {
            let (TStmt::Insert { tb, .. } | TStmt::Update { tb, .. } | TStmt::Delete { tb, .. }) = s;
            if *tb as usize >= ntab {
                *tb = 0;
            }
        }
        let shared = shared.clone();
        bodies.push(Box::new(move || {
            // every schedule point this thread reaches, in order: the observation windows
            // below rely on "no schedule point in between" and check it
            let sites: std::rc::Rc<std::cell::RefCell<Vec<&'static str>>> = Default::default();
            {
                let sites = sites.clone();
                sched::set_site_observer(Some(Box::new(move |site| sites.borrow_mut().push(site))));
            }
            let mark = || sites.borrow().len();
            let broken = |what: &str, from: usize| {
                let seen: Vec<&'static str> = sites.borrow()[from..].to_vec();
                let mut g = shared.lock().unwrap();
                if g.broken.is_none() {
                    g.broken = Some(format!("thread t{th}: {what}: schedule points {seen:?} inside an observation window"));
                }
            };
            sched::yield_point("c09.start");
            let auto = prog.kind == 2;
            let tx = if auto { 0 } else { e.begin_transaction() };
            let mut deleted: BTreeSet<Rid> = BTreeSet::new();
            let mut wrote: BTreeSet<Rid> = BTreeSet::new();
            for (si, s) in prog.stmts.iter().enumerate() {
                sched::yield_point("c09.stmt");
                let tag = tag_of(th, si);
                let mut effs: Vec<(Rid, Eff)> = Vec::new();
                let out;
                match s {
                    TStmt::Insert { tb, v } => {
                        let t = TABLES[*tb as usize];
                        let mut v = *v;
                        v[2] = tag;
                        let r = if auto { e.insert(t, vals_map(&v)) } else { e.tx_insert(tx, t, vals_map(&v)) };
                        out = match r {
                            Ok(id) => {
                                effs.push(((*tb, id), Eff::Ins(v)));
                                format!("Ok(#{id})")
                            },
                            Err(x) => format!("Err({})", strip_ids(&x.to_string())),
                        };
                    },
                    TStmt::Update { tb, cond, set } => {
                        let t = TABLES[*tb as usize];
                        let mut set = set.clone();
                        set.c = Some(tag);
                        let r = if auto { e.update(t, cond.to_engine(), set.to_engine()) } else { e.tx_update(tx, t, cond.to_engine(), set.to_engine()) };
                        out = format!("{:?}", classify(r, |n| *n));
                        // the rows carrying this statement's tag are the rows it changed
                        // (no schedule point between the last change and this read; read by
                        // scan, never through an index c may have)
                        let m0 = mark();
                        if let Ok(rows) = e.select(t, Condition::True) {
                            for r in rows {
                                if r.get("c") == Some(&Value::Int(tag)) {
                                    effs.push(((*tb, r.id), Eff::Set(set.clone())));
                                }
                            }
                        }
                        if mark() != m0 {
                            broken("tag read after update", m0);
                        }
                    },
                    TStmt::Delete { tb, cond } => {
                        let t = TABLES[*tb as usize];
                        if auto {
                            out = "skipped".to_string();
                        } else {
                            // what the statement's scan sees (no schedule point between this
                            // read and the scan inside tx_delete)
                            let m0 = mark();
                            let before: Vec<u64> = e
                                .select(t, Condition::True)
                                .map(|v| v.iter().filter(|r| row_vals(r).map(|x| cond.eval(r.id, &x)).unwrap_or(false)).map(|r| r.id).collect())
                                .unwrap_or_default();
                            if mark() != m0 {
                                broken("table read before delete", m0);
                            }
                            let r = e.tx_delete(tx, t, cond.to_engine());
                            // the first schedule point inside tx_delete comes after its scan
                            if sites.borrow().get(m0).is_some_and(|s| *s != "rel.tx_delete.after_scan") {
                                broken("delete scan", m0);
                            }
                            out = format!("{:?}", classify(r, |n| *n));
                            let m1 = mark();
                            // rows the scan matched, that are gone now and whose lock this
                            // transaction holds are the rows it deleted
                            let alive: BTreeSet<u64> = e.select(t, Condition::True).map(|v| v.iter().map(|r| r.id).collect()).unwrap_or_default();
                            if mark() != m1 {
                                broken("table read after delete", m1);
                            }
                            for id in before {
                                if e.tx_manager().row_lock_holder(t, id) == Some(tx) && !alive.contains(&id) && !deleted.contains(&(*tb, id)) {
                                    deleted.insert((*tb, id));
                                    effs.push(((*tb, id), Eff::Del));
                                }
                            }
                        }
                    },
                }
                for (id, _) in &effs {
                    wrote.insert(*id);
                }
                shared.lock().unwrap().obs.push(Obs::Stmt { th, si, out, effs });
            }
            if !auto {
                sched::yield_point("c09.end");
                let committed = prog.kind == 0;
                let r = if committed { e.commit(tx) } else { e.rollback(tx) };
                let out = format!("{:?}", classify(r, |_| 0));
                // values of the rows this transaction wrote, read with no schedule
                // point after the locks were released
                let mut wrote_now = BTreeMap::new();
                let m0 = mark();
                let wrote_tables: BTreeSet<u8> = wrote.iter().map(|id| id.0).collect();
                for tb in wrote_tables {
                    if let Ok(rows) = e.select(TABLES[tb as usize], Condition::True) {
                        let m: BTreeMap<u64, Vals> = rows.iter().filter_map(|r| row_vals(r).ok().map(|v| (r.id, v))).collect();
                        for id in wrote.iter().filter(|id| id.0 == tb) {
                            wrote_now.insert(*id, m.get(&id.1).copied());
                        }
                    }
                }
                if mark() != m0 {
                    broken("table read after the transaction ended", m0);
                }
                shared.lock().unwrap().obs.push(Obs::End { th, committed, out, wrote_now });
            }
            sched::set_site_observer(None);
        }));
    }
    let res = sched::run_threads(ctx, &case.schedule, 20_000, bodies);
    if res.exhausted {
        return Err("schedule step budget exhausted".into());
    }
    if !res.panics.is_empty() {
        return Err(format!("panic in a transaction thread: {:?}", res.panics));
    }
    for (site, n) in &res.preempted_at {
        ctx.fp(&format!("pre:{site}:{}", (*n).min(3)));
        match *site {
            "rel.tx_update.after_scan" | "rel.tx_delete.after_scan" => ctx.probe("preempted_between_scan_and_lock"),
            "rel.tx_update.after_lock" | "rel.tx_delete.after_lock" => ctx.probe("preempted_between_lock_and_change"),
            "rel.tx_update.row" | "rel.tx_delete.row" => ctx.probe("preempted_between_rows"),
            "rel.rollback.entry" | "rel.rollback.before_release" => ctx.probe("preempted_inside_rollback"),
            "rel.tx_insert.after_slab_insert" | "rel.tx_insert.after_index" => ctx.probe("preempted_inside_insert"),
            // parked in front of an acquisition of the row-lock tables or of an index lock
            // (between the critical sections of try_lock / release / the lock queries /
            // the index steps of a row change)
            "rel.lock" => ctx.probe("preempted_at_lock_table"),
            "rel.lock.wait" => ctx.probe("waited_for_lock_table"),
            _ => {},
        }
    }
    if let Some(b) = shared.lock().unwrap().broken.clone() {
        return Err(b);
    }
    let obs = std::mem::take(&mut shared.lock().unwrap().obs);

    // rebuild the row histories from the observations, in execution order
    let mut m = Model::default();
    let n = case.progs.len();
    // model tx per thread (auto threads: one per statement, created on the fly)
    let mut th_tx: Vec<Option<usize>> = vec![None; n];
    let boot = m.begin();
    for (id, v) in &init {
        m.push(*id, boot, Eff::Ins(*v));
    }
    m.end(boot, St::Committed);
    for (th, p) in case.progs.iter().enumerate() {
        if p.kind != 2 {
            th_tx[th] = Some(m.begin());
        }
    }
    // a tx_insert can meet a lock on its own brand-new row only when another
    // transaction locked the row between the moment tx_insert made it visible and
    // the moment it locks it: that transaction is modifying a row this live
    // transaction has inserted, and the insert then removes the row under it.
    // Looked for first: the other thread's statements may be reported before or
    // after the insert returns, and everything that follows is a consequence.
    for o in &obs {
        if let Obs::Stmt { th, si, out, .. } = o {
            if matches!(case.progs[*th].stmts[*si], TStmt::Insert { .. }) && out.starts_with("Err(Lock conflict") {
                ctx.event(&format!("t{th} stmt{si} {} -> {out}", show_stmt(&case.progs[*th].stmts[*si], ntab)));
                return Ok((
                    Some(viol(
                        "unfinished-insert-row-locked",
                        format!("thread t{th} statement {si}: tx_insert returned {out}: another transaction locked the new row after tx_insert had put it into the table and before it took the row lock; tx_insert removed the row again"),
                    )),
                    true,
                ));
            }
        }
    }
    let mut conflict_seen = false;
    for o in &obs {
        match o {
            Obs::Stmt { th, si, out, effs } => {
                let auto = case.progs[*th].kind == 2;
                let mt = if auto { m.begin() } else { th_tx[*th].unwrap() };
                let ids: Vec<String> = effs.iter().map(|(id, e)| format!("{}:{}", if ntab > 1 { rid(id) } else { format!("#{}", id.1) }, e.name())).collect();
                ctx.event(&format!("t{th} stmt{si} {} -> {out} rows [{}]", show_stmt(&case.progs[*th].stmts[*si], ntab), ids.join(" ")));
                if out == "Conflict" {
                    conflict_seen = true;
                    ctx.probe("lock_conflict_observed");
                }
                for (id, eff) in effs {
                    // "writers exclude each other": no row written by two transactions that
                    // were both live at the time
                    if m.hist.get(id).is_some_and(|evs| evs.iter().any(|e| e.tx != mt && e.tx != boot)) {
                        ctx.probe("two_threads_same_row");
                    }
                    // a row no finished statement has inserted: it is the row of a tx_insert of
                    // another thread that is still inside the call (row visible, parked in front
                    // of the lock table). "While a transaction has modified a row, no other
                    // transaction can modify or delete that row"
                    if !matches!(eff, Eff::Ins(_)) && !m.hist.contains_key(id) {
                        return Ok((
                            Some(viol(
                                format!("unfinished-insert-row-{}", eff.name()),
                                format!("thread t{th} statement {si} {} row {}, which a tx_insert of another live transaction has put into the table but not locked yet (if that tx_insert then meets the lock, it fails with a lock conflict and removes the row)", eff.name(), rid(id)),
                            )),
                            true,
                        ));
                    }
                    if let Some(prev) = m.hist.get(id).and_then(|evs| evs.iter().rev().find(|e| e.tx != mt)) {
                        if m.txs[prev.tx].st == St::Live {
                            let first = prev.eff.name();
                            if !(case.lenient_insert && first == "inserted") {
                                return Ok((
                                    Some(viol(
                                        format!("two-live-writers:row-{first}-then-{}", eff.name()),
                                        format!("thread t{th} statement {si} {} row {} while the transaction that {first} it was still live, and neither got a lock conflict", eff.name(), rid(id)),
                                    )),
                                    true,
                                ));
                            }
                        }
                    }
                    m.mark_shared(*id, mt);
                    m.push(*id, mt, eff.clone());
                }
                // a conflict "changes nothing"
                if out == "Conflict" && !effs.is_empty() {
                    return Ok((Some(viol("conflict-changed-rows", format!("thread t{th} statement {si} got a lock conflict but changed rows {ids:?}"))), true));
                }
                if let Some(cnt) = out.strip_prefix("Ok(").and_then(|s| s.strip_suffix(')')).and_then(|s| s.parse::<usize>().ok()) {
                    if matches!(case.progs[*th].stmts[*si], TStmt::Update { .. }) && cnt != effs.len() {
                        return Ok((
                            Some(viol(
                                "update-overwritten-while-locked",
                                format!("thread t{th} statement {si} reported {cnt} updated rows but only {} carry its tag when it returns: a row it had locked was changed by someone else", effs.len()),
                            )),
                            true,
                        ));
                    }
                }
                if auto {
                    m.end(mt, St::Committed);
                }
            },
            Obs::End { th, committed, out, wrote_now } => {
                let mt = th_tx[*th].unwrap();
                ctx.event(&format!("t{th} {} -> {out}", if *committed { "commit" } else { "rollback" }));
                let overl = m.overlapped(mt);
                if !out.starts_with("Ok") && !(overl && !*committed && out.starts_with("Other")) {
                    return Ok((Some(viol(if *committed { "commit-failed" } else { "rollback-failed" }, format!("thread t{th}: {out}"))), true));
                }
                m.end(mt, if *committed { St::Committed } else { St::RolledBack });
                if !*committed && !wrote_now.is_empty() {
                    ctx.probe("rollback_with_writes");
                }
                if wrote_now.keys().map(|id| id.0).collect::<BTreeSet<u8>>().len() >= 2 {
                    ctx.probe(if *committed { "thread_commit_spans_tables" } else { "thread_rollback_spans_tables" });
                    ctx.fp("end-spans-tables");
                }
                // rows this transaction wrote, as they are the moment it ended
                for (id, got) in wrote_now {
                    let want = m.value(*id);
                    if *got != want {
                        let what = if *committed { "commit" } else { "rollback" };
                        let sfx = if overl { "+shared-with-live-tx" } else { "" };
                        return Ok((
                            Some(viol(
                                format!("state-mismatch:after-{what}:row{sfx}"),
                                format!("thread t{th} {what}: row {} is {got:?}, expected {want:?} (the fold of the effects of all transactions not rolled back)", rid(id)),
                            )),
                            true,
                        ));
                    }
                }
            },
        }
    }
    let _ = conflict_seen;
    ctx.event("quiescence");
    // every tag a statement of this case may have written into c
    let tags: Vec<i64> = case.progs.iter().enumerate().flat_map(|(th, p)| (0..p.stmts.len()).map(move |si| tag_of(th, si))).collect();
    if let Some((view, d)) = compare_all(&e, &specs, &m, false, &tags)? {
        return Ok((Some(viol(format!("state-mismatch:at-quiescence:{view}"), d)), true));
    }
    // "the locks disappear when the first one ends"
    if e.tx_manager().active_lock_count() != 0 {
        return Ok((Some(viol("lock-residue:at-quiescence", format!("active_lock_count()={} after every transaction ended", e.tx_manager().active_lock_count()))), true));
    }
    for tb in 0..ntab as u8 {
        for id in 1..=m.max_id(tb) {
            if e.tx_manager().is_row_locked(TABLES[tb as usize], id) {
                return Ok((Some(viol("lock-residue:is_row_locked:holder-ended-or-never-locked", format!("row {} still locked after every transaction ended", rid(&(tb, id))))), true));
            }
        }
    }
    if e.active_transaction_count() != 0 {
        return Ok((Some(viol("tx-residue:at-quiescence", format!("active_transaction_count()={}", e.active_transaction_count()))), true));
    }
    Ok((None, res.switches >= 1 && obs.len() >= 2))
}

// ------------------------------------------------------------ generate ----

/// Replace the generated small numbers 0..=5 in columns a and b (rows, assignments,
/// condition constants) by `pal[x]`; column c (row tags in the thread layer) is left alone.
fn remap_values(case: &mut Case, pal: &[i64; 6]) {
    let m = |x: &mut i64| {
        if (0..6).contains(x) {
            *x = pal[*x as usize];
        }
    };
    let vals = |v: &mut Vals| {
        m(&mut v[0]);
        m(&mut v[1]);
    };
    let assign = |s: &mut Assign| {
        if let Some(x) = s.a.as_mut() {
            m(x);
        }
        if let Some(x) = s.b.as_mut() {
            m(x);
        }
    };
    let cond = |c: &mut Cond| match c {
        Cond::EqA(x) | Cond::EqB(x) | Cond::LtB(x) | Cond::LeB(x) | Cond::GtB(x) | Cond::GeB(x) => m(x),
        Cond::AEqBLe(x, y) => {
            m(x);
            m(y);
        },
        Cond::Col(col, _, x) if *col % 3 != 2 => m(x),
        _ => {},
    };
    case.init.iter_mut().for_each(vals);
    case.init_more.iter_mut().flatten().for_each(vals);
    for st in &mut case.steps {
        match st {
            Step::TxInsert { v, .. } | Step::Insert { v, .. } => vals(v),
            Step::TxUpdate { cond: c, set, .. } | Step::Update { cond: c, set, .. } => {
                cond(c);
                assign(set);
            },
            Step::TxDelete { cond: c, .. } | Step::TxSelect { cond: c, .. } | Step::Delete { cond: c, .. } => cond(c),
            _ => {},
        }
    }
    for p in &mut case.progs {
        for st in &mut p.stmts {
            match st {
                TStmt::Insert { v, .. } => vals(v),
                TStmt::Update { cond: c, set, .. } => {
                    cond(c);
                    assign(set);
                },
                TStmt::Delete { cond: c, .. } => cond(c),
            }
        }
    }
}

fn gen_vals(rng: &mut Rng) -> Vals {
    [rng.below(A_DOM as u64) as i64, rng.below(B_DOM as u64) as i64, rng.below(C_DOM as u64) as i64]
}

fn gen_cond(rng: &mut Rng, max_id: u64) -> Cond {
    match rng.below(14) {
        0 => Cond::True,
        1..=3 => Cond::EqA(rng.below(A_DOM as u64) as i64),
        4 => Cond::EqB(rng.below(B_DOM as u64) as i64),
        5 => Cond::EqC(rng.below(C_DOM as u64) as i64),
        6 => Cond::LtB(rng.range(1, B_DOM as u64) as i64),
        7 => Cond::LeB(rng.below(B_DOM as u64) as i64),
        8 => Cond::GtB(rng.below(B_DOM as u64) as i64),
        9 => Cond::GeB(rng.below(B_DOM as u64) as i64),
        10..=12 => Cond::Id(rng.range(1, max_id.max(1))),
        _ => Cond::AEqBLe(rng.below(A_DOM as u64) as i64, rng.below(B_DOM as u64) as i64),
    }
}

/// conditions of the multi-table cases: also any comparison on any column
fn gen_cond_any(rng: &mut Rng, max_id: u64) -> Cond {
    if rng.chance(1, 3) {
        let col = rng.below(3) as u8;
        let dom = [A_DOM, B_DOM, C_DOM][col as usize] as u64;
        let op = *rng.pick(&[Op::Eq, Op::Eq, Op::Lt, Op::Le, Op::Gt, Op::Ge]);
        Cond::Col(col, op, rng.below(dom) as i64)
    } else {
        gen_cond(rng, max_id)
    }
}

/// Index kinds of the tables of a multi-table case: every table differs from every
/// earlier one in the kinds of at least one same-named column.
fn gen_specs(rng: &mut Rng, ntab: usize, ordered_id: bool) -> Vec<TableSpec> {
    let mut specs: Vec<TableSpec> = Vec::new();
    for _ in 0..ntab {
        let mut cols = [0u8; 3];
        for _try in 0..8 {
            for c in &mut cols {
                *c = *rng.pick(&[0u8, 0, HASH, HASH, HASH, ORDERED, ORDERED, ORDERED, HASH | ORDERED]);
            }
            if specs.iter().all(|s| s.cols != cols) {
                break;
            }
        }
        if specs.iter().any(|s| s.cols == cols) {
            cols[0] ^= HASH;
        }
        let id_index = if ordered_id { *rng.pick(&[0u8, 0, 1, 2, 3]) } else { *rng.pick(&[0u8, 0, 1]) };
        specs.push(TableSpec { cols, id_index });
    }
    specs
}

fn gen_assign(rng: &mut Rng) -> Assign {
    let mut s = Assign::default();
    match rng.below(8) {
        0..=2 => s.a = Some(rng.below(A_DOM as u64) as i64),
        3..=5 => s.b = Some(rng.below(B_DOM as u64) as i64),
        6 => {
            s.a = Some(rng.below(A_DOM as u64) as i64);
            s.b = Some(rng.below(B_DOM as u64) as i64);
        },
        _ => s.c = Some(rng.below(C_DOM as u64) as i64),
    }
    if rng.chance(1, 4) {
        s.c = Some(rng.below(C_DOM as u64) as i64);
    }
    s
}

fn gen_advance(rng: &mut Rng, lock_s: u64, tx_s: u64) -> Step {
    // residues 1..=30 ms keep every clock difference off the exact timeout
    // boundaries (whole seconds) for up to 30 advances
    let extra = rng.range(1, 30);
    let secs = match rng.below(10) {
        0..=3 => 0,
        4..=7 => lock_s,
        8 => tx_s,
        _ => rng.range(0, tx_s + 1),
    };
    Step::Advance { ms: secs * 1000 + extra }
}

impl C09 {
    /// `multi`: two or three tables with differently indexed same-named columns
    /// (no extra draws otherwise: the single-table cases are those of the older seeds)
    fn gen_stmt_case(&self, rng: &mut Rng, multi: bool) -> Case {
        let ntab = if multi { *rng.pick(&[2usize, 2, 3]) } else { 1 };
        let limit_btree = multi && rng.chance(2, 5);
        let tables = if multi { gen_specs(rng, ntab, !limit_btree) } else { Vec::new() };
        let (lock_to_s, tx_to_s) = *rng.pick(&[(2u64, 5u64), (1, 3), (3, 3), (2, 9)]);
        let ntx = rng.range(2, 4) as u8;
        let n_init = if multi { rng.range(2, 4) } else { rng.range(2, 5) } as usize;
        let init: Vec<Vals> = (0..n_init).map(|_| gen_vals(rng)).collect();
        let init_more: Vec<Vec<Vals>> = (1..ntab).map(|_| (0..rng.range(1, 4)).map(|_| gen_vals(rng)).collect()).collect();
        let max_id = n_init as u64 + 3;
        // table of a statement, condition of a statement
        let gen_tb = |rng: &mut Rng| if multi { rng.below(ntab as u64) as u8 } else { 0 };
        let gen_cond = |rng: &mut Rng, max_id: u64| if multi { gen_cond_any(rng, max_id) } else { gen_cond(rng, max_id) };
        // per-transaction programs
        let mut progs: Vec<Vec<Step>> = Vec::new();
        for t in 0..ntx {
            let mut p = vec![Step::Begin { t }];
            let n = rng.range(1, 5);
            for _ in 0..n {
                let tb = gen_tb(rng);
                p.push(match rng.below(10) {
                    0..=1 => Step::TxInsert { t, tb, v: gen_vals(rng) },
                    2..=5 => Step::TxUpdate { t, tb, cond: gen_cond(rng, max_id), set: gen_assign(rng) },
                    6..=8 => Step::TxDelete { t, tb, cond: gen_cond(rng, max_id) },
                    _ => Step::TxSelect { t, tb, cond: gen_cond(rng, max_id) },
                });
            }
            match rng.below(10) {
                0..=3 => p.push(Step::Commit { t }),
                4..=8 => p.push(Step::Rollback { t }),
                _ => {}, // abandoned
            }
            // use after finish
            if rng.chance(1, 3) {
                let tb = gen_tb(rng);
                p.push(match rng.below(5) {
                    0 => Step::TxUpdate { t, tb, cond: Cond::True, set: gen_assign(rng) },
                    1 => Step::TxDelete { t, tb, cond: Cond::True },
                    2 => Step::Commit { t },
                    3 => Step::Rollback { t },
                    _ => Step::TxInsert { t, tb, v: gen_vals(rng) },
                });
            }
            progs.push(p);
        }
        // interleave, sprinkling auto-commit statements, clock advances and clean-ups
        let mut steps = Vec::new();
        let mut pos = vec![0usize; progs.len()];
        let mut advances = 0;
        let sticky = rng.below(3) == 0;
        let mut last = 0usize;
        loop {
            let open: Vec<usize> = (0..progs.len()).filter(|i| pos[*i] < progs[*i].len()).collect();
            if open.is_empty() {
                break;
            }
            let k = if sticky && open.contains(&last) && rng.chance(2, 3) { last } else { *rng.pick(&open) };
            last = k;
            steps.push(progs[k][pos[k]].clone());
            pos[k] += 1;
            match rng.below(12) {
                0 => steps.push(Step::Insert { tb: gen_tb(rng), v: gen_vals(rng) }),
                1 => steps.push(Step::Update { tb: gen_tb(rng), cond: gen_cond(rng, max_id), set: gen_assign(rng) }),
                2 => steps.push(Step::Delete { tb: gen_tb(rng), cond: gen_cond(rng, max_id) }),
                3..=4 if advances < 28 => {
                    advances += 1;
                    steps.push(gen_advance(rng, lock_to_s, tx_to_s));
                    if rng.chance(1, 4) {
                        steps.push(if rng.chance(1, 2) { Step::CleanupLocks } else { Step::CleanupTx });
                    }
                },
                _ => {},
            }
        }
        // engine configuration knobs (drawn last: the statement lists of older seeds stay the
        // same). Ordered-index limit: exactly as many keys as the initial rows need, or one or
        // two more, so that later statements that bring a new key fail half-way.
        if multi {
            // the limit counts the distinct keys of all ordered indexes of the engine together
            let mut keys = 0u64;
            for (tb, spec) in tables.iter().enumerate() {
                let rows = if tb == 0 { &init } else { &init_more[tb - 1] };
                for col in 0..3 {
                    if spec.cols[col] & ORDERED != 0 {
                        keys += rows.iter().map(|v| v[col]).collect::<BTreeSet<_>>().len() as u64;
                    }
                }
            }
            let max_btree = if limit_btree { Some(keys + rng.below(3)) } else { None };
            let max_cond_depth = if rng.chance(1, 8) { Some(0) } else { None };
            return Case { mode: Mode::Stmt, lock_to_s, tx_to_s, init, steps, progs: Vec::new(), schedule: Vec::new(), lenient_insert: false, max_btree, max_cond_depth, id_index: 0, tables, init_more };
        }
        let distinct_b = init.iter().map(|v| v[1]).collect::<BTreeSet<_>>().len() as u64;
        let max_btree = if rng.chance(2, 5) { Some(distinct_b + rng.below(3)) } else { None };
        let max_cond_depth = if rng.chance(1, 8) { Some(0) } else { None };
        Case { mode: Mode::Stmt, lock_to_s, tx_to_s, init, steps, progs: Vec::new(), schedule: Vec::new(), lenient_insert: false, max_btree, max_cond_depth, id_index: if max_btree.is_some() { *rng.pick(&[0u8, 0, 1]) } else { *rng.pick(&[0u8, 0, 1, 2, 3]) }, tables, init_more }
    }

    fn gen_thread_case(&self, rng: &mut Rng, multi: bool) -> Case {
        let ntab = if multi { *rng.pick(&[2usize, 2, 3]) } else { 1 };
        let tables = if multi { gen_specs(rng, ntab, true) } else { Vec::new() };
        let nth = rng.range(2, 4) as usize;
        let n_init = if multi { rng.range(2, 3) } else { rng.range(2, 4) } as usize;
        let init: Vec<Vals> = (0..n_init).map(|_| gen_vals(rng)).collect();
        let init_more: Vec<Vec<Vals>> = (1..ntab).map(|_| (0..rng.range(1, 3)).map(|_| gen_vals(rng)).collect()).collect();
        let max_id = n_init as u64 + 1;
        let gen_tb = |rng: &mut Rng| if multi { rng.below(ntab as u64) as u8 } else { 0 };
        let gen_cond = |rng: &mut Rng, max_id: u64| if multi { gen_cond_any(rng, max_id) } else { gen_cond(rng, max_id) };
        let mut progs = Vec::new();
        for _ in 0..nth {
            let kind = match rng.below(10) {
                0..=3 => 0,
                4..=8 => 1,
                _ => 2,
            };
            let n = rng.range(1, 3);
            let mut stmts = Vec::new();
            for _ in 0..n {
                let tb = gen_tb(rng);
                stmts.push(match rng.below(10) {
                    0 => TStmt::Insert { tb, v: gen_vals(rng) },
                    1..=6 => TStmt::Update { tb, cond: gen_cond(rng, max_id), set: gen_assign(rng) },
                    _ if kind != 2 => TStmt::Delete { tb, cond: gen_cond(rng, max_id) },
                    _ => TStmt::Update { tb, cond: gen_cond(rng, max_id), set: gen_assign(rng) },
                });
            }
            progs.push(Prog { kind, stmts });
        }
        let stick = *rng.pick(&[40u64, 60, 75, 85, 92]);
        // the lock-table acquisitions (rel.lock) are schedule points too: longer schedules
        let slen = rng.range(32, 192) as usize;
        let schedule = sched::gen_schedule(rng, slen, stick);
        Case { mode: Mode::Threads, lock_to_s: 30, tx_to_s: 60, init, steps: Vec::new(), progs, schedule, lenient_insert: false, max_btree: None, max_cond_depth: None, id_index: if multi { 0 } else { *rng.pick(&[0u8, 0, 1, 2, 3]) }, tables, init_more }
    }
}

impl Scenario for C09 {
    type Case = Case;
    fn id(&self) -> &'static str {
        "C09"
    }
    fn level(&self) -> &'static str {
        "exploration"
    }
    fn runs(&self, tier: Tier) -> u64 {
        match tier {
            Tier::Quick => 30_000,
            Tier::Thorough => 600_000,
        }
    }
    fn generate(&self, rng: &mut Rng, _tier: Tier, index: u64) -> Case {
        // every second case of each layer spans two or three tables
        let multi = (index / 5) % 2 == 1;
        let mut case = if index % 5 < 3 { self.gen_stmt_case(rng, multi) } else { self.gen_thread_case(rng, multi) };
        // a quarter of the cases use other integers for the values of columns a and b:
        // the ends of the range, negative numbers, numbers beyond 2^32 and 2^53 (index keys
        // and their order have to cope with every i64). The map is strictly increasing, so
        // the case keeps its shape; the model compares the numbers themselves.
        if rng.chance(1, 4) {
            let pal: [i64; 6] = *rng.pick(&[
                [i64::MIN, -1, 0, 1, i64::MAX - 1, i64::MAX],
                [-3, -2, -1, 0, 1, 2],
                [0, 1 << 31, 1 << 32, (1 << 53) + 1, 1 << 62, i64::MAX],
                [i64::MIN, i64::MIN + 1, -(1 << 32), -1, 9, 10],
            ]);
            remap_values(&mut case, &pal);
        }
        case
    }

    fn run(&self, case: &Case, ctx: &Arc<RunCtx>) -> RunOut {
        // switch threads only at this scenario's own layer's sites (see sched::Baton::allow)
        crate::sched::set_allowed_sites(&["c09.", "rel."]);
        let mut out = RunOut::default();
        match case.mode {
            Mode::Stmt => {
                ctx.fp("stmt");
                let e = match mk_engine(case) {
                    Ok(e) => e,
                    Err(x) => {
                        out.harness_error = Some(x);
                        return out;
                    },
                };
                let mut m = Model::default();
                m.lock_to_ms = case.lock_to_s * 1000;
                m.tx_to_ms = case.tx_to_s * 1000;
                let mut r = StmtRun { ctx, case, e, specs: case.specs(), m, slots: BTreeMap::new(), stmts_done: 0 };
                match r.run() {
                    Ok(v) => out.violation = v,
                    Err(x) => out.harness_error = Some(x),
                }
                out.nontrivial = out.violation.is_some() || (r.slots.len() >= 2 && r.stmts_done >= 3);
            },
            Mode::Threads => {
                ctx.fp("threads");
                match run_threads_case(case, ctx) {
                    Ok((v, nontrivial)) => {
                        out.violation = v;
                        out.nontrivial = nontrivial;
                    },
                    Err(x) => out.harness_error = Some(x),
                }
            },
        }
        out
    }

    fn shrink(&self, case: &Case) -> Vec<Case> {
        let mut v = Vec::new();
        // fewer tables (statements on a dropped table act on table 0), fewer rows in
        // the further tables, fewer indexes
        if case.tables.len() > 1 {
            let mut c = case.clone();
            c.tables.pop();
            c.init_more.truncate(c.tables.len() - 1);
            v.push(c);
        }
        for (k, rows) in case.init_more.iter().enumerate() {
            for r in drop_chunks(rows) {
                let mut c = case.clone();
                c.init_more[k] = r;
                v.push(c);
            }
        }
        for (k, spec) in case.tables.iter().enumerate() {
            if spec.id_index != 0 {
                let mut c = case.clone();
                c.tables[k].id_index = 0;
                v.push(c);
            }
            for col in 0..3 {
                for bit in [HASH, ORDERED] {
                    if spec.cols[col] & bit != 0 {
                        let mut c = case.clone();
                        c.tables[k].cols[col] &= !bit;
                        v.push(c);
                    }
                }
            }
        }
        match case.mode {
            Mode::Stmt => {
                if case.max_cond_depth.is_some() {
                    let mut c = case.clone();
                    c.max_cond_depth = None;
                    v.push(c);
                }
                if case.max_btree.is_some() {
                    let mut c = case.clone();
                    c.max_btree = None;
                    v.push(c);
                }
                for steps in drop_chunks(&case.steps) {
                    let mut c = case.clone();
                    c.steps = steps;
                    v.push(c);
                }
                for init in drop_chunks(&case.init) {
                    let mut c = case.clone();
                    c.init = init;
                    v.push(c);
                }
                for (i, st) in case.steps.iter().enumerate() {
                    // simpler statements
                    let simpler: Option<Step> = match st {
                        Step::TxUpdate { t, tb, cond, set } if set.a.is_some() as u8 + set.b.is_some() as u8 + set.c.is_some() as u8 > 1 => {
                            let mut s = set.clone();
                            if s.c.is_some() {
                                s.c = None;
                            } else {
                                s.b = None;
                            }
                            Some(Step::TxUpdate { t: *t, tb: *tb, cond: cond.clone(), set: s })
                        },
                        Step::Advance { ms } if *ms > 1000 && *ms % 1000 != 1 => Some(Step::Advance { ms: (*ms / 1000) * 1000 + 1 }),
                        _ => None,
                    };
                    if let Some(s) = simpler {
                        let mut c = case.clone();
                        c.steps[i] = s;
                        v.push(c);
                    }
                }
            },
            Mode::Threads => {
                for i in 0..case.progs.len() {
                    if case.progs.len() > 1 {
                        let mut c = case.clone();
                        c.progs.remove(i);
                        v.push(c);
                    }
                }
                for (i, p) in case.progs.iter().enumerate() {
                    for stmts in drop_chunks(&p.stmts) {
                        let mut c = case.clone();
                        c.progs[i].stmts = stmts;
                        v.push(c);
                    }
                }
                for init in drop_chunks(&case.init) {
                    let mut c = case.clone();
                    c.init = init;
                    v.push(c);
                }
                // shorter / calmer schedules
                for s in drop_chunks(&case.schedule).into_iter().take(12) {
                    let mut c = case.clone();
                    c.schedule = s;
                    v.push(c);
                }
                let n = case.schedule.len();
                for (lo, hi) in [(0, n / 2), (n / 2, n)] {
                    if case.schedule[lo..hi].iter().any(|x| *x != STAY) {
                        let mut c = case.clone();
                        for x in &mut c.schedule[lo..hi] {
                            *x = STAY;
                        }
                        v.push(c);
                    }
                }
                for i in 0..n {
                    if case.schedule[i] != STAY {
                        let mut c = case.clone();
                        c.schedule[i] = STAY;
                        v.push(c);
                    }
                }
                for (i, p) in case.progs.iter().enumerate() {
                    for (j, s) in p.stmts.iter().enumerate() {
                        if let TStmt::Update { tb, cond, set } = s {
                            if set.a.is_some() && set.b.is_some() {
                                let mut c = case.clone();
                                let mut s2 = set.clone();
                                s2.b = None;
                                c.progs[i].stmts[j] = TStmt::Update { tb: *tb, cond: cond.clone(), set: s2 };
                                v.push(c);
                            }
                        }
                    }
                }
            },
        }
        v
    }

    fn required_probes(&self) -> Vec<&'static str> {
        vec![
            "rollback_touched_indexed_column",
            "lock_conflict_observed",
            "lock_expired_taken_by_other",
            "use_after_finish",
            "tx_expired_by_clock",
            "commit_with_writes",
            "preempted_between_scan_and_lock",
            "preempted_between_lock_and_change",
            "two_threads_same_row",
            "rollback_with_writes",
            "preempted_at_lock_table",
            "rollback_after_failed_stmt",
            "commit_after_failed_stmt",
            "failed_auto_stmt",
            // multi-table cases: a rolled-back transaction that updated / deleted, in two
            // tables, a same-named column the tables index differently; commits and
            // thread-layer transactions over two tables
            "rollback_spans_differently_indexed_column",
            "commit_spans_tables",
            "thread_rollback_spans_tables",
            "thread_commit_spans_tables",
        ]
    }
    fn rule(&self) -> String {
        "Every second block of five cases is single-table (table t(a,b,c) with a hash index on a and an ordered index on b, optional _id indexes), the others have two or three tables t, u, w with the same columns whose index kinds (none / hash / ordered / both per column a, b, c and _id) are part of the case and differ between any two tables in at least one same-named column; every statement names its table, transactions and auto-commit statements span the tables, the model is per (table, row) and every view (scan, equality on every hash-indexed column, the four range comparisons on every ordered-indexed column, _id lookups and _id ranges) is compared for every table. A case is either (Stmt, 3 of 5) an explicit list of <=~45 steps over tables of 1-5 rows: begin/tx_insert/tx_update/tx_delete/tx_select/commit/rollback of 2-4 transactions (<=5 statements each, some abandoned, some used after they finished), auto-commit insert/update/delete, clock advances (sub-second, past the row-lock timeout, past the transaction timeout) and the public clean-up calls, on an engine whose configuration is part of the case (2 of 5: max_btree_entries = number of distinct ordered keys of the initial rows + 0..2, so statements fail half-way; 1 of 8: max_condition_depth = 0, so nested conditions fail while scanning), judged after every step (after a half-way failed statement: table only until its transaction ends, then every view); or (Threads, 2 of 5) 2-4 threads running one transaction or auto-commit stream of 1-3 statements each under an explicit schedule with switch points between statements, at the rel.* hook sites inside tx_insert/tx_update/tx_delete/commit/rollback and in front of every acquisition of the row-lock tables and of the engine's index locks (rel.lock), judged when each transaction ends and at quiescence. Non-trivial: Stmt — at least two transactions begun and three transactional calls executed; Threads — at least one thread switch and two statements. Distinct: hash of (layer, sequence of commit/rollback/conflict/lock-takeover/tx-expiry/failed-statement events, per-site preemption counts).".into()
    }
    fn components(&self) -> Json {
        json!({
            "real": ["relational_engine::RelationalEngine (create_table, create_index, create_btree_index, insert/update/delete_rows/select, begin_transaction, tx_insert/tx_update/tx_delete/tx_select, commit, rollback)", "relational_engine::transaction::{TransactionManager, RowLockManager} incl. cleanup_expired / cleanup_expired_locks", "tensor_store::RelationalSlab and TensorStore (index entries)"],
            "simulated": ["wall clock and monotonic clock (lock and transaction expiry read SystemTime::now)", "thread interleaving: baton scheduler over real OS threads, switches only at harness yield points, rel.* hook sites and the rel.lock acquisitions of RowLockManager's tables and of the engine's index / ordered-index / DDL locks (relational_engine::sync_compat)"],
            "stub": []
        })
    }
    fn assumptions(&self) -> Vec<String> {
        vec![
            "in-memory engine (no WAL); durability of transactions is not part of C09".into(),
            "reads are not judged for isolation: the engine applies transactional writes in place and tx_select is a plain select (established from the code); only writer exclusion, rollback/commit exactness, lock release/expiry and use-after-finish are judged".into(),
            "a transaction past its timeout is still live until TransactionManager::cleanup_expired removes it; removal keeps its writes (treated like a commit, not judged)".into(),
            "clock differences never land exactly on a timeout boundary (advances carry a 1-30 ms residue)".into(),
            "Threads layer: switches happen only at the listed hook sites; code between two sites is atomic".into(),
            "a row inserted by a live transaction counts as a row that transaction has modified".into(),
            "a statement that returns ResultTooLarge / ConditionTooDeep because of the configured limits is a failed statement: its immediate effects are observed, not judged; the end of its transaction (rollback: exactly the state without the transaction; commit: every index view agrees with the table) and a failed auto-commit statement (nothing may remain) are judged".into(),
            "engine limits are configured only in the Stmt layer; the Threads layer runs with the default configuration".into(),
            "all tables have the columns (a, b, c) of type INT; row ids are per table; max_btree_entries counts the keys of all ordered indexes of the engine together (established from the code)".into(),
            "only queries the engine answers through an index (equality on a hash-indexed column, range on an ordered-indexed column, _id) and the full scan are compared; other conditions are scans with a filter".into(),
            "Threads layer: the rel.lock sites cover RowLockManager's tables and the engine's index / ordered-index / DDL locks (relational_engine::sync_compat); DashMap shards and the store's own locks are not schedule points. Each thread body checks that its observation reads contain no schedule point (harness error otherwise)".into(),
        ]
    }
}
